"""Checker self-test (thorough tier): a fixed, fully enumerated catalogue of single edits to a scratch copy of
/repo/autograd.  Every MUTANT (still compiles; wrong only in an unsampled configuration) must be reported by
the rule it targets; every BENIGN variant (behaviour preserving) must leave all checks silent.

Scratch copies live under $TMPDIR/vsa-<pid>-<n>/ and are removed immediately after each variant.
An edit whose anchor text is no longer present in the tree is 'inapplicable' (the repo moved on), reported in
the tallies; the self-test fails only if an applicable mutant is missed or an applicable benign variant fires.
"""
import os
import shutil
import tempfile

NV = "autograd/numpy/numpy_vjps.py"
NJ = "autograd/numpy/numpy_jvps.py"
NW = "autograd/numpy/numpy_wrapper.py"
NB = "autograd/numpy/numpy_boxes.py"
NS = "autograd/numpy/numpy_vspaces.py"
LA = "autograd/numpy/linalg.py"
FF = "autograd/numpy/fft.py"
CO = "autograd/core.py"
TR = "autograd/tracer.py"
BU = "autograd/builtins.py"
DO = "autograd/differential_operators.py"
WU = "autograd/wrap_util.py"
TUF = "autograd/test_util.py"
UTI = "autograd/util.py"

# (name, {property: rule expected to fire}, [(file, old, new), ...])
MUTANTS = [
    ("drop-unbroadcast-logaddexp2", {"C01": "A3.vjp", "C05": "A3.vjp"}, [(NV, "lambda ans, x, y: unbroadcast_f(y, lambda g: g * 2 ** (y - ans)),", "lambda ans, x, y: lambda g: g * 2 ** (y - ans),")]),
    ("unbroadcast-wrong-target-hypot", {"C01": "A3.vjp", "C05": "A3.vjp"}, [(NV, "lambda ans, x, y: unbroadcast_f(x, lambda g: g * x / ans),", "lambda ans, x, y: unbroadcast_f(y, lambda g: g * x / ans),")]),
    ("matmul-adjoint-no-unbroadcast", {"C01": "A3.vjp", "C05": "A3.vjp"}, [(NV, "    result = anp.matmul(G, B)\n    return unbroadcast(result, A_meta)", "    result = anp.matmul(G, B)\n    return result")]),
    ("where-vjp-no-unbroadcast", {"C05": "A3.vjp"}, [(NV, "lambda ans, c, x=None, y=None: unbroadcast_f(x, lambda g: anp.where(c, g, anp.zeros(g.shape))),", "lambda ans, c, x=None, y=None: lambda g: anp.where(c, g, anp.zeros(g.shape)),")]),
    ("subtract-jvp-no-broadcast", {"C02": "A3.jvp"}, [(NJ, "lambda g, ans, x, y: broadcast(-g, ans))", "lambda g, ans, x, y: -g)")]),
    ("same-on-cumprod", {"C02": "A1.lin", "C04": "A1.lin"}, [(NJ, 'defjvp(anp.cumsum, "same")', 'defjvp(anp.cumsum, "same")\ndefjvp(anp.cumprod, "same")')]),
    ("same-on-add", {"C02": "A1.lin", "C04": "A1.lin"}, [(NJ, "defjvp(anp.add, lambda g, ans, x, y: broadcast(g, ans), lambda g, ans, x, y: broadcast(g, ans))", 'defjvp(anp.add, "same", "same")')]),
    ("def-linear-on-power", {"C02": "A1.lin"}, [(NJ, "def_linear(anp.multiply)", "def_linear(anp.multiply)\ndef_linear(anp.float_power)")]),
    ("nograd-smooth-function", {"C14": "A1.nograd", "C15": "A1.nograd"}, [(NV, "    anp.result_type,\n]", "    anp.result_type,\n    anp.cbrt,\n]")]),
    ("wrapper-notrace-smooth", {"C14": "A1.nograd", "C15": "A1.nograd"}, [(NW, "notrace_functions = [_np.ndim, _np.shape, _np.iscomplexobj, _np.result_type]", "notrace_functions = [_np.ndim, _np.shape, _np.iscomplexobj, _np.result_type, _np.cbrt]")]),
    ("notrace-one-node-type-only", {"C14": "A1.sym"}, [(NJ, "for fun in nograd_functions:\n    register_notrace(JVPNode, fun)", "for fun in nograd_functions:\n    register_notrace(JVPNode, fun)\nregister_notrace(JVPNode, anp.spacing)")]),
    ("none-rule-on-smooth-arg", {"C14": "A1.none", "C15": "A1.none"}, [(NV, "defvjp(anp.negative, lambda ans, x: lambda g: -g)", "defvjp(anp.negative, lambda ans, x: lambda g: -g)\ndefvjp(anp.copysign, None, None)")]),
    ("surplus-maker-dropped", {"C01": "A1.arity", "C02": "A1.arity"}, [(NJ, 'defjvp(anp.full, "same", argnums=(1,))', 'defjvp(anp.full, "same", "same", argnums=(1,))')]),
    ("method-bound-to-other-function", {"C14": "A1.methods"}, [(NB, 'setattr(ArrayBox, "flatten", anp.__dict__["ravel"])', 'setattr(ArrayBox, "flatten", anp.__dict__["squeeze"])')]),
    ("helper-primitive-loses-vjp", {"C07": "A1.helpers"}, [(NV, "defvjp(untake, lambda ans, x, idx, _: lambda g: g[idx])\n", "")]),
    ("box-without-vspace", {"C05": "A1.types", "C13": "A1.types"}, [(NS, "for type_ in [float, np.longdouble, np.float64, np.float32, np.float16]:", "for type_ in [float, np.longdouble, np.float64, np.float32]:")]),
    ("sparse-types-lose-box", {"C11": "A1.types", "C13": "A1.types"}, [(CO, "sparse_object_types = {SparseObject, SparseBox}", "sparse_object_types = {SparseObject}")]),
    ("fft2-parser-renames-s", {"C01": "A2.catchall"}, [(FF, "def get_fft2_args(a, s=None, axes=(-2, -1), norm=None, *args, **kwargs):\n    return axes, s, norm", "def get_fft2_args(a, shape=None, axes=(-2, -1), norm=None, *args, **kwargs):\n    return axes, shape, norm")]),
    ("fft-parser-renames-n-back", {"C01": "A2.catchall"}, [(FF, "def get_fft_args(a, n=None, axis=-1, norm=None, *args, **kwargs):\n    axes = [axis]\n    if n is not None:\n        n = [n]\n    return axes, n, norm", "def get_fft_args(a, d=None, axis=-1, norm=None, *args, **kwargs):\n    axes = [axis]\n    if d is not None:\n        d = [d]\n    return axes, d, norm")]),
    ("array-from-args-offset", {"C01": "A2.variadic"}, [(NV, "return lambda g: g[argnum - 2]", "return lambda g: g[argnum - 1]")]),
    ("make-sequence-jvp-offset", {"C12": "A2.variadic"}, [(BU, "return container_untake(g, argnum - 1, vspace(ans))", "return container_untake(g, argnum - 2, vspace(ans))")]),
    ("extend-left-uses-right-layout", {"C12": "A2.layout"}, [(BU, "return lambda g: g[len(elts) :] if argnum == 0 else g[argnum - 1]", "return lambda g: g[: len(seq)] if argnum == 0 else g[len(seq) + argnum - 1]")]),
    ("outer-loses-match-complex", {"C05": "A4.match", "C09": "A4.match"}, [(NV, "lambda ans, a, b: lambda g: match_complex(a, anp.reshape(anp.dot(g, anp.ravel(b)), anp.shape(a))),", "lambda ans, a, b: lambda g: anp.reshape(anp.dot(g, anp.ravel(b)), anp.shape(a)),")]),
    ("fft-loses-match-complex", {"C09": "A4.match", "C05": "A4.match"}, [(FF, "    return lambda g: match_complex(x, truncate_pad(fft_fun(g, *args, **kwargs), vs.shape))", "    return lambda g: truncate_pad(fft_fun(g, *args, **kwargs), vs.shape)")]),
    ("inner-loses-match-complex", {"C05": "A4.match", "C09": "A4.match"}, [(NV, "        return lambda G: match_complex(A, tensordot_adjoint_0(B, G, axes, A_ndim, B_ndim))\n    elif argnum == 1:", "        return lambda G: tensordot_adjoint_0(B, G, axes, A_ndim, B_ndim)\n    elif argnum == 1:")]),
    ("complex-covector-override-deleted", {"C09": "A4.vspace", "C13": "A4.vspace"}, [(NS, "    def _covector(self, x):\n        return np.conj(x)\n", "")]),
    ("complex-inner-prod-no-conj", {"C09": "A4.vspace", "C13": "A4.vspace"}, [(NS, "return np.real(np.dot(np.conj(np.ravel(x)), np.ravel(y)))", "return np.real(np.dot(np.ravel(x), np.ravel(y)))")]),
    ("std-vjp-loses-conj", {"C09": "A4.modulus"}, [(NV, "            x_minus_mean = anp.conj(x - anp.mean(x, axis=axis, keepdims=True))\n            return g_repeated * x_minus_mean / (num_reps - ddof)", "            x_minus_mean = x - anp.mean(x, axis=axis, keepdims=True)\n            return g_repeated * x_minus_mean / (num_reps - ddof)")]),
    ("norm-vjp-loses-conj", {"C09": "A4.modulus"}, [(LA, "return expand(g / ans) * anp.conj(x)", "return expand(g / ans) * x")]),
    ("tan-jvp-wrong-power", {"C04": "A5", "C01": "A5", "C09": "A5"}, [(NJ, "defjvp(anp.tan, lambda g, ans, x: g / anp.cos(x) ** 2)", "defjvp(anp.tan, lambda g, ans, x: g / anp.cos(x))")]),
    ("imag-jvp-sign", {"C04": "A5", "C09": "A5"}, [(NJ, "defjvp(anp.imag, lambda g, ans, x: match_complex(ans, -1j * g))", "defjvp(anp.imag, lambda g, ans, x: match_complex(ans, 1j * g))")]),
    ("arctan2-vjp-arg1-sign", {"C04": "A5", "C01": "A5"}, [(NV, "lambda ans, x, y: unbroadcast_f(y, lambda g: g * -x / (x**2 + y**2)),", "lambda ans, x, y: unbroadcast_f(y, lambda g: g * x / (x**2 + y**2)),")]),
    ("log1p-vjp-off-by-one", {"C04": "A5"}, [(NV, "defvjp(anp.log1p, lambda ans, x: lambda g: g / (x + 1))", "defvjp(anp.log1p, lambda ans, x: lambda g: g / x)")]),
    ("vjp-nonlinear-in-g", {"C04": "A5.lin"}, [(NV, "defvjp(anp.fabs, lambda ans, x: lambda g: anp.sign(x) * g)", "defvjp(anp.fabs, lambda ans, x: lambda g: anp.sign(x) * g * anp.abs(g))")]),
    ("vjp-affine-in-g", {"C04": "A5.lin"}, [(NV, "defvjp(anp.expm1, lambda ans, x: lambda g: (ans + 1) * g)", "defvjp(anp.expm1, lambda ans, x: lambda g: (ans + 1) * g + ans)")]),
    ("missing-rule-swallowed", {"C15": "A6.raise", "C17": "A6.raise", "C03": "A6.raise"}, [(CO, '            except KeyError:\n                raise NotImplementedError(f"VJP of {fun.__name__} wrt argnum 0 not defined")', "            except KeyError:\n                return lambda g: (vspace(args[argnum]).zeros(),)")]),
    ("rule-lookup-with-default", {"C15": "A6.raise", "C17": "A6.raise"}, [(CO, "            vjps = [vjps_dict[argnum](ans, *args, **kwargs) for argnum in argnums]", "            vjps = [vjps_dict.get(argnum, vjps_dict[0])(ans, *args, **kwargs) for argnum in argnums]")]),
    ("new-box-swallows-keyerror", {"C15": "A6.raise"}, [(TR, "    except KeyError:\n        raise TypeError(f\"Can't differentiate w.r.t. type {type(value)}\")", "    except KeyError:\n        return value")]),
    ("guard-bypassed-by-early-return", {"C15": "A6.dom"}, [(NV, "    # TODO: Cast input with np.asanyarray()\n    if len(x.shape) > 1:\n        raise NotImplementedError(\"Gradient of sort not implemented for multi-dimensional arrays.\")", "    if axis == 0:\n        return lambda g: unpermuter(g, anp.argsort(x, axis, kind, order))\n    if len(x.shape) > 1:\n        raise NotImplementedError(\"Gradient of sort not implemented for multi-dimensional arrays.\")")]),
    ("jvp-guard-deleted-partition", {"C02": "A6.sibling", "C15": "A6.sibling"}, [(NJ, "    if len(x.shape) > 1:\n        raise NotImplementedError(\"Gradient of partition not implemented for multi-dimensional arrays.\")\n    partition_perm", "    partition_perm")]),
    ("jvp-guard-deleted-atleast", {"C02": "A6.sibling", "C15": "A6.sibling"}, [(NJ, "        if len(arys) > 1:\n            raise NotImplementedError(\"Can't handle multiple arguments yet.\")\n        return fun(g)", "        return fun(g)")]),
    ("rfft-norm-only-none", {"C01": "A6.enum", "C15": "A6.enum"}, [(FF, '    if norm is None or norm == "backward":\n        fac /= N\n    elif norm == "forward":\n        fac *= N\n    elif norm != "ortho":\n        raise NotImplementedError("Real FFT gradient not implemented for norm={}".format(norm))', "    if norm is None:\n        fac /= N")]),
    ("elementwise-grad-check-removed", {"C15": "A6.ops", "C16": "A6.ops"}, [(DO, '    if vspace(ans).iscomplex:\n        raise TypeError("Elementwise_grad only applies to real-output functions.")\n', "")]),
    ("arraybox-setitem-added", {"C15": "A6.ops", "C06": "A6.ops"}, [(NB, "    def __len__(self):\n        return len(self._value)\n\n    def astype", "    def __len__(self):\n        return len(self._value)\n\n    def __setitem__(self, idx, val):\n        self._value[idx] = val\n\n    def astype")]),
    ("stack-default-axis", {"C06": "A6.wrapsig"}, [(NW, "def stack(arrays, axis=0):", "def stack(arrays, axis=-1):")]),
    ("append-default-axis", {"C06": "A6.wrapsig"}, [(NW, "def append(arr, values, axis=None):", "def append(arr, values, axis=0):")]),
    ("select-returns-raw", {"C15": "A6.rawcall"}, [(NW, "    return array(list(raw_array.ravel())).reshape(raw_array.shape)", "    return raw_array")]),
    ("repeat-negative-axis-unnormalised", {"C01": "A7"}, [(NV, "    if axis is not None and axis < 0:\n        axis = axis + len(shape)\n", "")]),
    ("norm-axis-pair-unnormalised", {"C01": "A7"}, [(LA, "def norm_vjp(ans, x, ord=None, axis=None):\n    if isinstance(axis, tuple):\n        axis = tuple(a % x.ndim for a in axis)\n", "def norm_vjp(ans, x, ord=None, axis=None):\n")]),
    ("chooser-jvp-sorted-raw-axes", {"C02": "A7"}, [(NJ, "for ax in sorted(a % anp.ndim(x) for a in axis):", "for ax in sorted(axis):")]),
    ("transpose-argsort-raw-axes", {"C01": "A7"}, [(NV, "axes = anp.argsort([axis % len(axes) for axis in axes])", "axes = anp.argsort(axes)")]),
    ("cumsum-axis-arithmetic", {"C01": "A7"}, [(NV, "            g_cumsum = reverse_axis(anp.cumsum(reverse_axis(g, axis), axis), axis)", "            g_cumsum = anp.flip(anp.cumsum(anp.flip(g, axis), axis), axis) if axis + 1 < x.ndim else reverse_axis(anp.cumsum(reverse_axis(g, axis), axis), axis)")]),
    ("raw-numpy-on-argument", {"C07": "A8"}, [(NV, "defvjp(anp.sin, lambda ans, x: lambda g: g * anp.cos(x))", "defvjp(anp.sin, lambda ans, x: lambda g: g * onp.cos(x))")]),
    ("raw-numpy-on-cotangent", {"C07": "A8"}, [(NV, "    return lambda g: anp.sum(g, axis=broadcast_axes, keepdims=True)", "    return lambda g: onp.sum(g, axis=broadcast_axes, keepdims=True)")]),
    ("raw-numpy-in-helper", {"C07": "A8"}, [(NV, "        x_minus_mean = anp.conj(x - anp.mean(x, axis=axis, keepdims=True))\n        return 2.0 * g_repeated", "        x_minus_mean = anp.conj(x - onp.mean(x, axis=axis, keepdims=True))\n        return 2.0 * g_repeated")]),
    ("add-becomes-mut-add-on-borrowed", {"C10": "A9.proto", "C11": "A9.proto"}, [(CO, "                return vs.add(prev_g, g), True", "                return vs.mut_add(prev_g, g), True")]),
    ("first-contribution-flag-true", {"C10": "A9.proto"}, [(CO, "            return g, False", "            return g, True")]),
    ("sparse-add-into-borrowed", {"C10": "A9.proto", "C11": "A9.proto"}, [(CO, "                prev_g_mutable = vs.mut_add(None, prev_g)\n                return sparse_add(vs, prev_g_mutable, g), True", "                return sparse_add(vs, prev_g, g), True")]),
    ("user-cotangent-flag-true", {"C10": "A9.proto"}, [(CO, "    outgrads = {end_node: (g, False)}", "    outgrads = {end_node: (g, True)}")]),
    ("sparse-test-narrowed", {"C11": "A9.proto"}, [(CO, "    sparse = type(g) in sparse_object_types", "    sparse = type(g) is SparseObject")]),
    ("vspace-add-in-place", {"C10": "A9.pure", "C13": "A9.pure"}, [(CO, "    def _add(self, x, y):\n        return x + y", "    def _add(self, x, y):\n        x += y\n        return x")]),
    ("mut-add-none-reuses-argument", {"C10": "A9.pure", "C13": "A9.pure"}, [(CO, "        x_prev = x_prev if x_prev is not None else self.zeros()\n        return self._mut_add(x_prev, x_new)", "        if x_prev is None:\n            return x_new\n        return self._mut_add(x_prev, x_new)")]),
    ("rule-mutates-cotangent", {"C10": "A9.inplace"}, [(NV, "        if iscomplex:\n            g = g + 0j\n        g_repeated, num_reps = repeat_to_match_shape(g, shape, dtype, axis, keepdims)\n        x_minus_mean", "        if iscomplex:\n            g += 0j\n        g_repeated, num_reps = repeat_to_match_shape(g, shape, dtype, axis, keepdims)\n        x_minus_mean")]),
    ("primitive-sorts-input-in-place", {"C10": "A9.inplace", "C06": "A9.inplace"}, [(NW, "def concatenate_args(axis, *args):\n    return", "def concatenate_args(axis, *args):\n    args[0].sort()\n    return")]),
    ("scatter-with-buffered-add", {"C11": "A9.scatter"}, [(NV, "        onp.add.at(A, idx, x)", "        A[idx] += x")]),
    ("vjps-built-as-generator", {"C10": "A10", "C19": "A10", "C07": "A10"}, [(CO, "        vjps = [vjpmaker(argnum, *args) for argnum in argnums]", "        vjps = (vjpmaker(argnum, *args) for argnum in argnums)")]),
    ("closure-pops-captured-list", {"C10": "A10", "C19": "A10"}, [(NV, "    def vjp(g):\n        for axis, rep in enumerate(reps, first_axis):", "    reps = list(reps)\n\n    def vjp(g):\n        reps.reverse()\n        for axis, rep in enumerate(reps, first_axis):")]),
    ("module-level-memo-in-vspace", {"C19": "A11.state"}, [(CO, "def vspace(value):\n    try:\n        return VSpace.mappings[type(value)](value)", "_vspace_memo = {}\n\n\ndef vspace(value):\n    try:\n        _vspace_memo[id(value)] = type(value)\n        return VSpace.mappings[type(value)](value)")]),
    ("lru-cache-on-helper", {"C19": "A11.state"}, [(NV, "def balanced_eq(x, z, y):", "import functools\n\n\n@functools.lru_cache(maxsize=None)\ndef balanced_eq(x, z, y):")]),
    ("registry-written-from-rule", {"C19": "A11.state"}, [(NV, "def grad_transpose(ans, x, axes=None):", "def grad_transpose(ans, x, axes=None):\n    nograd_functions.append(anp.transpose)")]),
    ("thread-local-removed", {"C20": "A11.thread"}, [(TR, "class TraceStack(threading.local):", "class TraceStack:")]),
    ("second-global-counter", {"C20": "A11.thread", "C19": "A11.state"}, [(TR, "trace_stack = TraceStack()", "class _CallCounter:\n    def __init__(self):\n        self.n = 0\n\n    def bump(self):\n        self.n += 1\n        return self.n\n\n\ncall_counter = _CallCounter()\ntrace_stack = TraceStack()")]),
    ("top-reset-in-handler", {"C19": "A12.bal", "C08": "A12.bal", "C20": "A12.bal"}, [(TR, "        self.top += 1\n        yield self.top\n        self.top -= 1", "        self.top += 1\n        try:\n            yield self.top\n        except BaseException:\n            self.top = -1\n            raise\n        self.top -= 1")]),
    ("yield-before-increment", {"C08": "A12.bal", "C19": "A12.bal"}, [(TR, "        self.top += 1\n        yield self.top\n        self.top -= 1", "        yield self.top\n        self.top += 1\n        self.top -= 1")]),
    ("top-reset-elsewhere", {"C19": "A12.bal"}, [(TR, "def trace(start_node, fun, x):\n    with", "def trace(start_node, fun, x):\n    if not isbox(x):\n        trace_stack.top = -1\n    with")]),
    ("reset-on-greater-equal", {"C08": "A12.top"}, [(TR, "            if trace > top_trace:", "            if trace >= top_trace:")]),
    ("append-branch-dropped", {"C08": "A12.top"}, [(TR, "            elif trace == top_trace:\n                top_boxes.append((argnum, arg))\n", "")]),
    ("dependence-by-greater-equal", {"C08": "A12.top", "C06": "A12.top", "C14": "A12.top"}, [(TR, "        if isbox(end_box) and end_box._trace == start_box._trace:", "        if isbox(end_box) and end_box._trace >= start_box._trace:")]),
    ("rebox-with-global-top", {"C08": "A12.top"}, [(TR, "            return new_box(ans, trace, node)", "            return new_box(ans, trace_stack.top, node)")]),
    ("trace-id-arithmetic", {"C19": "A12.cmp"}, [(TR, "                top_trace = trace\n", "                top_trace = trace + 0\n")]),
    ("trace-id-compared-with-constant", {"C19": "A12.cmp"}, [(TR, "        if isbox(end_box) and end_box._trace == start_box._trace:", "        if isbox(end_box) and end_box._trace == start_box._trace and end_box._trace < 64:")]),
    ("trace-returns-box", {"C06": "A13.unbox", "C08": "A13.unbox", "C14": "A13.unbox"}, [(TR, "            return end_box._value, end_box._node", "            return end_box, end_box._node")]),
    ("new-trace-yields-before-increment", {"C08": "A12.bal"}, [(TR, "        self.top += 1\n        yield self.top\n        self.top -= 1", "        yield self.top\n        self.top += 1\n        self.top -= 1")]),
    ("new-trace-yields-stale-local", {"C08": "A12.bal"}, [(TR, "        self.top += 1\n        yield self.top\n        self.top -= 1", "        t = self.top\n        self.top += 1\n        yield t\n        self.top -= 1")]),
    ("new-trace-decrement-conditional", {"C08": "A12.bal", "C19": "A12.bal"}, [(TR, "        self.top += 1\n        yield self.top\n        self.top -= 1", "        self.top += 1\n        yield self.top\n        if self.top > 1:\n            self.top -= 1")]),
    ("checker-skips-first-order-fwd", {"C18": "A18.modes"}, [(TUF, '    if "fwd" in modes:\n        check_jvp(f, x)\n        if order > 1:', '    if "fwd" in modes:\n        if order > 1:\n            check_jvp(f, x)\n        if order > 1:')]),
    ("checker-recursion-changes-modes", {"C18": "A18.modes"}, [(TUF, '            v = vspace(x).randn()\n            check_grads(grad_f, (0, 1), modes, order=order - 1)(x, v)', '            v = vspace(x).randn()\n            check_grads(grad_f, (0, 1), ["rev"], order=order - 1)(x, v)')]),
    ("checker-recursion-rev-uses-jvp", {"C18": "A18.modes"}, [(TUF, "            grad_f = lambda x, v: make_vjp(f, x)[0](v)", "            grad_f = lambda x, v: make_jvp(f, x)(v)[1]")]),
    ("check-vjp-independent-draw", {"C18": "A18.compare"}, [(TUF, "    vjv_numeric = y_vs.inner_prod(y_v, jvp(x_v))", "    vjv_numeric = y_vs.inner_prod(y_v, jvp(x_vs.randn()))")]),
    ("check-vjp-compares-with-itself", {"C18": "A18.compare"}, [(TUF, "    assert scalar_close(vjv_numeric, vjv_exact), (", "    assert scalar_close(vjv_exact, vjv_exact), (")]),
    ("check-jvp-compares-primal", {"C18": "A18.compare"}, [(TUF, "    check_equivalent(jvp(x_v)[1], jvp_numeric(x_v))", "    check_equivalent(jvp(x_v)[0], jvp_numeric(x_v))")]),
    ("check-equivalent-independent-projections", {"C18": "A18.compare"}, [(TUF, "    assert scalar_close(x_vs.inner_prod(x, v), x_vs.inner_prod(y, v)), f", "    assert scalar_close(x_vs.inner_prod(x, v), x_vs.inner_prod(y, x_vs.randn())), f")]),
    ("numerical-jvp-one-sided", {"C18": "A18.numjvp"}, [(TUF, "        f_x_minus = f(x_vs.add(x, x_vs.scalar_mul(v, -EPS / 2)))", "        f_x_minus = f(x_vs.add(x, x_vs.scalar_mul(v, 0.0)))")]),
    ("numerical-jvp-wrong-scale", {"C18": "A18.numjvp"}, [(TUF, "        return y_vs.scalar_mul(y_vs.add(f_x_plus, neg_f_x_minus), 1.0 / EPS)", "        return y_vs.scalar_mul(y_vs.add(f_x_plus, neg_f_x_minus), 2.0 / EPS)")]),
    ("scalar-close-loose-tolerance", {"C18": "A18.tol"}, [(TUF, "TOL = 1e-6\nRTOL = 1e-6", "TOL = 1e-6\nRTOL = 1e-2")]),
    ("wrapper-unboxes-recursively", {"C08": "A13.unbox", "C06": "A13.unbox"}, [(TR, "argvals = subvals(args, [(argnum, box._value) for argnum, box in boxed_args])", "argvals = subvals(args, [(argnum, getval(box)) for argnum, box in boxed_args])")]),
    ("wrapper-calls-raw-on-partially-unboxed", {"C08": "A13.unbox", "C03": "A13.unbox", "C17": "A13.unbox"}, [(TR, "            ans = f_wrapped(*argvals, **kwargs)", "            ans = f_raw(*argvals, **kwargs)")]),
    ("notrace-branch-calls-raw", {"C14": "A13.unbox", "C08": "A13.unbox"}, [(TR, "                return f_wrapped(*argvals, **kwargs)", "                return f_raw(*argvals, **kwargs)")]),
    ("notrace-primitive-one-level", {"C06": "A13.unbox", "C14": "A13.unbox"}, [(TR, "getval = lambda x: getval(x._value) if isbox(x) else x", "getval = lambda x: x._value if isbox(x) else x")]),
    ("parents-reversed", {"C03": "A13.align", "C17": "A13.align"}, [(TR, "parents = tuple(box._node for _, box in boxed_args)", "parents = tuple(box._node for _, box in reversed(boxed_args))")]),
    ("fast-path-swapped", {"C03": "A13.align", "C17": "A13.align"}, [(CO, "            return lambda g: (vjp_0(g), vjp_1(g))", "            return lambda g: (vjp_1(g), vjp_0(g))")]),
    ("fast-path-wrong-key", {"C03": "A13.align", "C17": "A13.align"}, [(CO, "                vjp_1_fun = vjps_dict[argnum_1]", "                vjp_1_fun = vjps_dict[argnum_0 + 1]")]),
    ("same-substitutes-at-zero", {"C17": "A13.align", "C02": "A13.align"}, [(CO, "        return lambda g, ans, *args, **kwargs: fun(*subval(args, argnum, g), **kwargs)", "        return lambda g, ans, *args, **kwargs: fun(*subval(args, 0, g), **kwargs)")]),
    ("def-linear-drops-kwargs", {"C17": "A13.align"}, [(CO, "    defjvp_argnum(fun, lambda argnum, g, ans, args, kwargs: fun(*subval(args, argnum, g), **kwargs))", "    defjvp_argnum(fun, lambda argnum, g, ans, args, kwargs: fun(*subval(args, argnum, g)))")]),
    ("jvp-tangents-sorted", {"C03": "A13.align", "C17": "A13.align"}, [(CO, "        return sum_outgrads(jvps_dict[argnum](g, ans, *args, **kwargs) for argnum, g in zip(argnums, gs))", "        return sum_outgrads(jvps_dict[argnum](g, ans, *args, **kwargs) for argnum, g in zip(sorted(argnums, reverse=True), gs))")]),
    ("accumulation-overwrites", {"C03": "A13.once", "C10": "A13.once"}, [(CO, "            outgrads[parent] = add_outgrads(outgrads.get(parent), ingrad)", "            outgrads[parent] = add_outgrads(None, ingrad)")]),
    ("vjp-called-per-parent", {"C03": "A13.once"}, [(CO, "        ingrads = node.vjp(outgrad[0])\n        for parent, ingrad in zip(node.parents, ingrads):", "        ingrads = node.vjp(outgrad[0])\n        if len(node.parents) > 2:\n            ingrads = node.vjp(outgrad[0])\n        for parent, ingrad in zip(node.parents, ingrads):")]),
    ("zeros-of-cotangent-space", {"C05": "A13.zero", "C14": "A13.zero", "C16": "A13.zero"}, [(CO, "        def vjp(g):\n            return vspace(x).zeros()", "        def vjp(g):\n            return vspace(g).zeros()")]),
    ("jvp-zeros-of-input-space", {"C14": "A13.zero", "C02": "A13.zero"}, [(CO, "            return end_value, vspace(end_value).zeros()", "            return end_value, vspace(x).zeros()")]),
    ("none-rule-zeros-of-first-arg", {"C17": "A13.zero", "C14": "A13.zero"}, [(CO, "        return lambda ans, *args, **kwargs: lambda g: vspace(args[argnum]).zeros()", "        return lambda ans, *args, **kwargs: lambda g: vspace(args[0]).zeros()")]),
    ("make-jvp-tuple-flipped", {"C02": "A2.tuple", "C16": "A2.tuple"}, [(CO, "            return end_value, end_node.g", "            return end_node.g, end_value")]),
    ("rsub-operands-swapped", {"C01": "A14", "C06": "A14"}, [(NB, "    def __rsub__(self, other):\n        return anp.subtract(other, self)", "    def __rsub__(self, other):\n        return anp.subtract(self, other)")]),
    ("rtruediv-operands-swapped", {"C01": "A14", "C06": "A14"}, [(NB, "        return anp.true_divide(other, self)", "        return anp.true_divide(self, other)")]),
    ("property-returns-other-attribute", {"C06": "A14", "C14": "A14"}, [(NB, "    size = property(lambda self: self._value.size)", "    size = property(lambda self: self._value.ndim)")]),
    ("comparison-maps-to-traced", {"C14": "A14", "C15": "A14"}, [(NB, "    def __ge__(self, other):\n        return anp.greater_equal(self, other)", "    def __ge__(self, other):\n        return anp.maximum(self, other)")]),
    ("dict-get-reads-raw", {"C12": "A14.containers"}, [(BU, "        return self[k] if k in self else d", "        return self._value.get(k, d)")]),
    ("dict-values-read-raw", {"C12": "A14.containers"}, [(BU, "    def values(self):\n        return list(self.itervalues())", "    def values(self):\n        return list(self._value.values())")]),
    ("radd-uses-right-extend", {"C12": "A14.containers"}, [(BU, "        return sequence_extend_left(self, *other)", "        return sequence_extend_right(self, *other)")]),
    ("substitute-at-zero", {"C16": "A15"}, [(WU, "                    subargs = subvals(args, [(argnum, x)])", "                    subargs = subvals(args, [(0, x)])")]),
    ("kwargs-dropped", {"C16": "A15", "C17": "A15"}, [(WU, "                return fun(*subargs, **kwargs)", "                return fun(*subargs)")]),
    ("jacobian-shape-input-first", {"C16": "A15"}, [(DO, "    jacobian_shape = ans_vspace.shape + vspace(x).shape", "    jacobian_shape = vspace(x).shape + ans_vspace.shape")]),
    ("jacobian-basis-of-input", {"C16": "A15"}, [(DO, "    grads = map(vjp, ans_vspace.standard_basis())", "    grads = map(vjp, vspace(x).standard_basis())")]),
    ("value-and-grad-transforms-primal", {"C16": "A15", "C06": "A15"}, [(DO, "    return ans, vjp(vspace(ans).ones())", "    return np.asarray(ans), vjp(vspace(ans).ones())")]),
    ("checkpoint-takes-value", {"C17": "A15", "C16": "A15"}, [(DO, "        return make_vjp(fun, argnum)(*args, **kwargs)[0]", "        return make_vjp(fun, argnum)(*args, **kwargs)[1]")]),
    ("holomorphic-grad-of-imag", {"C09": "A15", "C16": "A15"}, [(DO, "    return grad(lambda x: np.real(fun(x)))(x)", "    return grad(lambda x: np.imag(fun(x)))(x)")]),
    ("deriv-takes-value", {"C16": "A2.tuple"}, [(DO, "    return _make_jvp(fun, x)(vspace(x).ones())[1]", "    return _make_jvp(fun, x)(vspace(x).ones())[0]")]),
    ("node-slots-permuted", {"C03": "A2.slot", "C17": "A2.slot"}, [(CO, "        self.vjp = vjpmaker(parent_argnums, value, args, kwargs)", "        self.vjp = vjpmaker(parent_argnums, args, value, kwargs)")]),
    ("untake-pairing-drops-index", {"C11": "A2.repo"}, [(NV, "defvjp(func(ArrayBox.__getitem__), lambda ans, A, idx: lambda g: untake(g, idx, vspace(A)))", "defvjp(func(ArrayBox.__getitem__), lambda ans, A, idx: lambda g: untake(g, idx, vspace(g)))")]),
    ("flatten-unsorted-keys", {"C12": "A2.flatten"}, [("autograd/misc/flatten.py", "        return _concatenate(_flatten(value[k]) for k in sorted(value))", "        return _concatenate(_flatten(value[k]) for k in value.keys())")]),
    ("toposort-push-every-visit", {"C03": "A13.topo"}, [("autograd/util.py", "            child_counts[node] = 1\n            stack.extend(parents(node))", "            child_counts[node] = 1\n        stack.extend(parents(node))")]),
    ("toposort-release-too-early", {"C03": "A13.topo"}, [("autograd/util.py", "            if child_counts[parent] == 1:", "            if child_counts[parent] >= 1:")]),
    ("toposort-no-decrement", {"C03": "A13.topo"}, [("autograd/util.py", "            else:\n                child_counts[parent] -= 1", "            else:\n                child_counts[parent] -= 2")]),
    ("container-add-delegates-to-mut-add", {"C12": "A14.vspace", "C13": "A14.vspace"}, [(BU, "return self._map(lambda vs, x, y: vs._add(x, y), xs, ys)", "return self._map(lambda vs, x, y: vs._mut_add(x, y), xs, ys)")]),
    ("container-inner-prod-operands", {"C13": "A14.vspace"}, [(BU, "self._map(lambda vs, x, y: vs._inner_prod(x, y), xs, ys)", "self._map(lambda vs, x, y: vs._inner_prod(x, x), xs, ys)")]),
    ("dict-map-by-position", {"C12": "A14.vspace", "C13": "A14.vspace"}, [(BU, "return {k: f(vs, *[x[k] for x in args]) for k, vs in self.shape.items()}", "return {k: f(vs, *[list(x.values())[i] for x in args]) for i, (k, vs) in enumerate(self.shape.items())}")]),
    ("untake-slice-zip-order", {"C12": "A14.vspace"}, [(BU, "for elt_vs, a, b in zip(vs.shape[idx], result, x)]", "for elt_vs, b, a in zip(vs.shape[idx], result, x)]")]),
    ("dict-ctor-values-sorted", {"C12": "A14.vspace"}, [(BU, "return _make_dict(result.keys(), list(result.values()))", "return _make_dict(sorted(result.keys()), list(result.values()))")]),
    ("wrap-namespace-priority", {"C06": "A13.wrapns", "C15": "A13.wrapns"}, [(NW, "        if obj in notrace_functions:\n            new[name] = notrace_primitive(obj)\n        elif callable(obj) and type(obj) is not type:\n            new[name] = primitive(obj)", "        if callable(obj) and type(obj) is not type:\n            new[name] = primitive(obj)\n        elif obj in notrace_functions:\n            new[name] = notrace_primitive(obj)")]),
    ("htp-contracts-fewer-axes", {"C16": "A15.products"}, [(DO, "return np.tensordot(fun_grad(*args, **kwargs), vector, np.ndim(vector))", "return np.tensordot(fun_grad(*args, **kwargs), vector, 1)")]),
    ("tjp-operands-swapped", {"C16": "A15.products"}, [(DO, "return np.tensordot(vector, fun(*args, **kwargs), axes=np.ndim(vector))", "return np.tensordot(fun(*args, **kwargs), vector, axes=np.ndim(vector))")]),
    ("jvp-reversemode-zeros-of-input", {"C16": "A15.products"}, [(DO, "    vjp_vjp, _ = _make_vjp(vjp, vspace(y).zeros())", "    vjp_vjp, _ = _make_vjp(vjp, vspace(x).zeros())")]),
    ("unbroadcast-reads-own-shape", {"C01": "A3.helper", "C05": "A3.helper"}, [(NV, "        if size == 1:\n            x = anp.sum(x, axis=axis, keepdims=True)", "        if size == 1 and anp.shape(x)[axis] > 1:\n            x = anp.sum(x, axis=axis, keepdims=True)")]),
    ("unbroadcast-keepdims-dropped", {"C05": "A3.helper"}, [(NV, "            x = anp.sum(x, axis=axis, keepdims=True)\n    if anp.iscomplexobj(x)", "            x = anp.sum(x, axis=axis)\n    if anp.iscomplexobj(x)")]),
    ("norm-pnorm-ans-unexpanded", {"C01": "A3.reduce", "C05": "A3.reduce"}, [(LA, "return expand(g / ans ** (ord - 1)) * anp.conj(x) * anp.abs(x) ** (ord - 2)", "return expand(g) * anp.conj(x) * (anp.abs(x) / ans) ** (ord - 2) / ans")]),
    ("prod-vjp-ans-unexpanded", {"C01": "A3.reduce"}, [(NV, "        g_repeated, _ = repeat_to_match_shape(g * ans, shape, dtype, axis, keepdims)\n        return g_repeated / x", "        g_repeated, _ = repeat_to_match_shape(g, shape, dtype, axis, keepdims)\n        return g_repeated * ans / x")]),
    ("make-dict-vjp-by-position", {"C12": "A2.dictkeys"}, [(BU, "lambda ans, keys, vals: lambda g: list(g[key] for key in keys)", "lambda ans, keys, vals: lambda g: list(g.values())")]),
    ("thread-local-with-slots", {"C20": "A11.thread"}, [(TR, "class TraceStack(threading.local):\n", "class TraceStack(threading.local):\n    __slots__ = [\"top\"]\n\n")]),
    ("arraybox-hash-by-value", {"C03": "A14", "C06": "A14"}, [(NB, "    def __hash__(self):\n        return id(self)", "    def __hash__(self):\n        return hash(self._value)")]),
    ("reshape-method-drops-kwargs", {"C06": "A1.methods", "C14": "A1.methods"}, [(NV, "        return anp.reshape(x, args, **kwargs)", "        return anp.reshape(x, args)")]),
    ("zeros-hoisted-out-of-closure", {"C14": "A10", "C10": "A10"}, [(CO, "    if end_node is None:\n\n        def vjp(g):\n            return vspace(x).zeros()", "    if end_node is None:\n        zeros = vspace(x).zeros()\n\n        def vjp(g):\n            return zeros")]),
    ("untake-index-rewritten-recursively", {"C11": "A9.scatter"}, [(NV, "    if isinstance(idx, list) and (len(idx) == 0 or not isinstance(idx[0], slice)):\n        idx = onp.array(idx, dtype=\"int64\")\n\n    def mut_add(A):", "    idx = _index_arrays(idx)\n\n    def mut_add(A):"), (NV, "@primitive\ndef untake(x, idx, vs):", "def _index_arrays(idx):\n    if isinstance(idx, tuple):\n        return tuple(_index_arrays(i) for i in idx)\n    if isinstance(idx, list) and (len(idx) == 0 or not isinstance(idx[0], slice)):\n        return onp.array(idx, dtype=\"int64\")\n    return idx\n\n\n@primitive\ndef untake(x, idx, vs):")]),
    ("extend-right-negative-slice-bound", {"C12": "A2.layout"}, [(BU, "    return lambda g: g[: len(seq)] if argnum == 0 else g[len(seq) + argnum - 1]", "    return lambda g: g[: -len(elts)] if argnum == 0 else g[argnum - 1 - len(elts)]")]),
    ("even-shape-guard-made-conditional", {"C15": "A6.dom"}, [(FF, "    if s is None:\n        s = [vs.shape[i] for i in axes]\n    check_even_shape(s)", "    if s is None:\n        s = [vs.shape[i] for i in axes]\n        check_even_shape(s)")]),
    ("array-vspace-scalar-fast-path", {"C13": "A1.members"}, [(NS, "    def __init__(self, value):\n        value = np.asarray(value)\n        self.shape = value.shape\n        self.dtype = value.dtype", "    def __init__(self, value):\n        if np.isscalar(value):\n            self.shape = ()\n            self.dtype = np.dtype(complex if self.iscomplex else float)\n            return\n        value = np.asarray(value)\n        self.shape = value.shape\n        self.dtype = value.dtype")]),
    ("accumulator-shared-across-calls", {"C19": "A13.once", "C03": "A13.once", "C10": "A13.once"}, [(CO, "def backward_pass(g, end_node):\n    outgrads = {end_node: (g, False)}", "def backward_pass(g, end_node, outgrads={}):\n    outgrads[end_node] = (g, False)")]),
    ("pad-jvp-same", {"C04": "A1.lin", "C02": "A1.lin"}, [(NJ, "defjvp(anp.pad, lambda g, ans, array, width, mode, **kwargs: anp.pad(g, width, mode))", 'defjvp(anp.pad, "same")')]),
    ("broadcast-repeat-condition", {"C02": "A3.helper"}, [(NJ, "    for axis, size in enumerate(anp.shape(x)):\n        if size == 1:", "    for axis, size in enumerate(anp.shape(x)):\n        if size < target_shape[axis]:")]),
    ("inner-match-complex-wrong-target", {"C05": "A4.match", "C09": "A4.match"}, [(NV, "        return lambda G: match_complex(B, tensordot_adjoint_1(A, G, axes, A_ndim, B_ndim))", "        return lambda G: match_complex(A, tensordot_adjoint_1(A, G, axes, A_ndim, B_ndim))")]),
    ("htp-outer-grad-loses-argnum", {"C16": "A15.products", "C08": "A15.products"}, [(DO, "    return grad(vector_dot_grad, argnum)", "    return grad(vector_dot_grad)")]),
    ("power-jvp-guard-dropped", {"C07": "A5", "C04": "A5"}, [(NJ, "    lambda g, ans, x, y: g * y * x ** anp.where(y, y - 1, 1.0),", "    lambda g, ans, x, y: g * y * x ** (y - 1),")]),
    ("single-thread-fast-path-counter", {"C20": "A12.bal", "C08": "A12.bal"}, [(TR, "        self.top += 1\n        yield self.top\n        self.top -= 1", "        stack = self if threading.active_count() > 1 else _single_threaded\n        stack.top += 1\n        yield stack.top\n        stack.top -= 1"), (TR, "trace_stack = TraceStack()", "class _Counter:\n    top = -1\n\n\n_single_threaded = _Counter()\ntrace_stack = TraceStack()")]),
    ("moveaxis-vjp-not-inverted", {"C01": "A16"}, [(NV, "lambda g: anp.moveaxis(g, destination, source)", "lambda g: anp.moveaxis(g, source, destination)")]),
    ("transpose-vjp-no-argsort", {"C01": "A16"}, [(NV, "axes = anp.argsort([axis % len(axes) for axis in axes])", "axes = [axis % len(axes) for axis in axes]")]),
    ("rollaxis-vjp-off-by-one", {"C01": "A16"}, [(NV, "anp.rollaxis(g, start - 1, axis) if start > axis else anp.rollaxis(g, start, axis + 1)", "anp.rollaxis(g, start, axis) if start > axis else anp.rollaxis(g, start, axis + 1)")]),
    ("norm-jvp-moveaxis-stale-adjust", {"C02": "A16.norm", "C01": "A16.norm"}, [(LA, "            roll = lambda a: anp.rollaxis(anp.rollaxis(a, col_axis, a.ndim), row_axis, a.ndim - 1)\n            # Roll matrix axes to their original position\n            unroll = lambda a: anp.rollaxis(anp.rollaxis(a, a.ndim - 2, row_axis), a.ndim - 1, col_axis)\n\n    check_implemented()\n    if ord in", "            roll = lambda a: anp.moveaxis(a, (row_axis, col_axis), (-2, -1))\n            # Roll matrix axes to their original position\n            unroll = lambda a: anp.moveaxis(a, (-2, -1), (row_axis, col_axis))\n\n    check_implemented()\n    if ord in")]),
    ("stack-normalises-with-input-rank", {"C06": "A7.norm"}, [(NW, "    if axis < 0:\n        axis += result_ndim", "    if axis < 0:\n        axis += arrays[0].ndim")]),
    ("defjvp-skips-unruled-argnums", {"C17": "A13.align", "C03": "A13.align"}, [(CO, "for argnum, g in zip(argnums, gs))\n\n    defjvp_argnums(fun, jvp_argnums)\n\n\ndef translate_jvp", "for argnum, g in zip(argnums, gs) if argnum in jvps_dict)\n\n    defjvp_argnums(fun, jvp_argnums)\n\n\ndef translate_jvp")]),
    ("inner-prod-memory-order-ravel", {"C13": "A9.layout"}, [(NS, "return np.real(np.dot(np.conj(np.ravel(x)), np.ravel(y)))", "return np.real(np.vdot(np.ravel(x, order=\"K\"), np.ravel(y, order=\"K\")))")]),
    ("ndmin-vjp-bare-squeeze", {"C05": "A3.squeeze", "C01": "A3.squeeze"}, [(NV, "return lambda g: anp.squeeze(g, axis=tuple(range(ndmin - scarray_ndim)))", "return lambda g: anp.squeeze(g)")]),
    ("repeated-axes-guard-weakened", {"C15": "A6.guardfn"}, [(FF, "def check_no_repeated_axes(axes):\n    axes_set = set(axes)\n    if len(axes) != len(axes_set):\n        raise NotImplementedError(\"FFT gradient for repeated axes not implemented.\")", "def check_no_repeated_axes(axes, s=None):\n    if s is None:\n        s = [None] * len(axes)\n    lengths = {}\n    for axis, n in zip(axes, s):\n        if lengths.setdefault(axis, n) != n:\n            raise NotImplementedError(\"FFT gradient for repeated axes with different s not implemented.\")")]),
    ("toposort-identity-comparison", {"C03": "A13.topo"}, [("autograd/util.py", "            if child_counts[parent] == 1:", "            if child_counts[parent] is 1:")]),
    ("nondiff-methods-rewrapped", {"C14": "A1.methods", "C06": "A1.methods"}, [(NB, "for method_name in nondiff_methods + diff_methods:\n    setattr(ArrayBox, method_name, anp.__dict__[method_name])", "for method_name in nondiff_methods:\n    setattr(ArrayBox, method_name, notrace_primitive(getattr(np.ndarray, method_name)))\nfor method_name in diff_methods:\n    setattr(ArrayBox, method_name, anp.__dict__[method_name])"), (NB, "from autograd.extend import Box, primitive", "from autograd.extend import Box, notrace_primitive, primitive")]),
    ("einsum-vjp-no-unbroadcast", {"C01": "A3.vjp", "C05": "A3.vjp", "C04": "A3.vjp"}, [(NV, "            return unbroadcast(anp.einsum(new_subscripts, *new_operands), result_meta)", "            return match_complex(operands[op_num], anp.einsum(new_subscripts, *new_operands))")]),
    ("deriv-scalar-seed", {"C16": "A2.tuple"}, [(DO, "    return _make_jvp(fun, x)(vspace(x).ones())[1]", "    return _make_jvp(fun, x)(1.0)[1]")]),
    ("unpermuter-aliases-captured-permutation", {"C10": "A9.inplace"}, [(NV, "    unsort = anp.zeros(len(permutation), dtype=int)\n    unsort[permutation] = list(range(len(permutation)))", "    unsort = anp.asarray(permutation, dtype=int)\n    unsort[permutation] = anp.arange(len(permutation))")]),
    ("cumsum-reverse-by-slicing-tuple", {"C01": "A7"}, [(NV, "def reverse_axis(x, axis):\n    x = x.swapaxes(axis, 0)\n    x = x[::-1, ...]\n    return x.swapaxes(0, axis)", "def reverse_axis(x, axis):\n    return x[(slice(None),) * axis + (slice(None, None, -1),)]")]),
    ("find-top-collect-then-filter", {"C08": "A12.top"}, [(TR, "            if trace > top_trace:\n                top_boxes = [(argnum, arg)]\n                top_trace = trace\n                top_node_type = type(arg._node)\n            elif trace == top_trace:\n                top_boxes.append((argnum, arg))", "            top_boxes.append((argnum, arg))\n            if trace > top_trace:\n                top_trace = trace\n                top_node_type = type(arg._node)")]),
    ("tensordot-adjoint0-wrong-argsort", {"C04": "A17", "C01": "A17"}, [(NV, "        perm = onp.argsort(onp.concatenate((other_axes[0], summed_axes[0][onp.argsort(summed_axes[1])])))", "        perm = onp.argsort(onp.concatenate((other_axes[0], summed_axes[0][onp.argsort(summed_axes[0])])))")]),
    ("tensordot-adjoint1-int-axes-slice", {"C04": "A17"}, [(NV, "return onp.tensordot(A, G, [A_axes[: A_ndim - axes], G_axes[: A_ndim - axes]])", "return onp.tensordot(A, G, [A_axes[: A_ndim - axes], G_axes[axes:A_ndim]])")]),
    ("dot-adjoint0-no-swap", {"C04": "A17", "C01": "A17"}, [(NV, "        out = onp.tensordot(G, onp.swapaxes(B, -1, -2), B_ndim - 1)", "        out = onp.tensordot(G, B, B_ndim - 1)")]),
    ("ravel-vjp-forwards-layout-order", {"C01": "A7.order"}, [(NV, "defvjp(anp.ravel, lambda ans, x, order=None: lambda g: anp.reshape(g, anp.shape(x), order=index_order(x, order)))", "defvjp(anp.ravel, lambda ans, x, order=None: lambda g: anp.reshape(g, anp.shape(x), order=order))")]),
    ("reshape-jvp-same-again", {"C02": "A7.order"}, [(NJ, "defjvp(anp.reshape, lambda g, ans, x, shape, order=None: anp.reshape(g, shape, order=index_order(x, order)))", 'defjvp(anp.reshape, "same")')]),
    ("ravel-jvp-resolves-only-K", {"C02": "A7.order"}, [(NJ, "defjvp(anp.ravel, lambda g, ans, x, order=None: anp.ravel(g, order=index_order(x, order)))", 'defjvp(anp.ravel, lambda g, ans, x, order=None: anp.ravel(g, order=index_order(x, order) if order == "K" else order))')]),
    ("flatten-leaves-in-layout-order", {"C12": "A7.order"}, [("autograd/misc/flatten.py", "        return np.ravel(value)", '        return np.ravel(value, order="A")')]),
    ("array-space-add-returns-operand", {"C10": "A9.pure", "C13": "A9.pure"}, [(NS, "    def _inner_prod(self, x, y):\n        return np.dot(np.ravel(x), np.ravel(y))\n", "    def _inner_prod(self, x, y):\n        return np.dot(np.ravel(x), np.ravel(y))\n\n    def _add(self, x, y):\n        return x + y if np.any(y) else x\n")]),
    ("pad-vjp-stages-a-generator", {"C19": "A10", "C10": "A10"}, [(NV, "    return lambda g: _unpad(g, pad_width)", "    widths = _pad_pairs(pad_width)\n    return lambda g: g[tuple(slice(l, -u or None) for l, u in widths)]"), (NV, "def pad_vjp(ans, array, pad_width, mode, **kwargs):", "def _pad_pairs(width):\n    return ((w[0], w[1]) for w in width)\n\n\ndef pad_vjp(ans, array, pad_width, mode, **kwargs):")]),
    ("chooser-jvp-masks-tangent-in-place", {"C02": "A9.inplace", "C10": "A9.inplace"}, [(NJ, "    chosen_locations = x == ans\n    return anp.sum((g * chosen_locations), axis=axis, keepdims=keepdims)", "    chosen_locations = x == ans\n    g *= chosen_locations\n    return anp.sum(g, axis=axis, keepdims=keepdims)")]),
    ("checker-reseeds-before-probes", {"C18": "A18.rng"}, [(TUF, "    x_v, y_v = x_vs.randn(), y_vs.randn()", "    import numpy\n\n    numpy.random.seed(0)\n    x_v = x_vs.randn()\n    numpy.random.seed(0)\n    y_v = y_vs.randn()")]),
    ("dot-adjoint-kind-by-dtype-equality", {"C09": "A4.dtypecmp", "C05": "A4.dtypecmp"}, [(NV, "    return onp.asarray(out, dtype=A_dtype)", "    if onp.iscomplexobj(out) and A_dtype != complex:\n        out = onp.real(out)\n    return onp.asarray(out, dtype=A_dtype)")]),
    ("container-basis-placed-by-space-equality", {"C13": "A14.vspace"}, [(BU, "        for i, vs in self._kv_pairs(self.shape):\n            for x in vs.standard_basis():\n                yield self._subval(zero, i, x)", "        for slot in self._values(self.shape):\n            for x in slot.standard_basis():\n                yield self._map(lambda vs, z: x if vs == slot else z, zero)")]),
    ("container-basis-swapped-key", {"C13": "A14.vspace"}, [(BU, "                yield self._subval(zero, i, x)", "                yield self._subval(x, i, zero)")]),
    ("concatenate-jvp-slot-by-identity", {"C02": "A2.position"}, [(NJ, "        if i == argnum:\n            result.append(g)", "        if axis_args[i] is axis_args[argnum]:\n            result.append(g)")]),
    ("sum-vjp-template-from-dtype-option", {"C05": "A4.template"}, [(NV, "    shape, dtype = anp.shape(x), anp.result_type(x)\n    return lambda g: repeat_to_match_shape(g, shape, dtype, axis, keepdims)[0]", "    shape = anp.shape(x)\n    if dtype is None:\n        dtype = anp.result_type(x)\n    return lambda g: repeat_to_match_shape(g, shape, dtype, axis, keepdims)[0]")]),
    ("complex64-scalar-in-real-space", {"C13": "A4.vspace", "C09": "A4.vspace"}, [(NS, "for type_ in [float, np.longdouble, np.float64, np.float32, np.float16]:", "for type_ in [float, np.longdouble, np.float64, np.float32, np.float16, np.complex64]:"), (NS, "for type_ in [complex, np.clongdouble, np.complex64, np.complex128]:", "for type_ in [complex, np.clongdouble, np.complex128]:")]),
    ("diagonal-vjp-moveaxis-swapped", {"C01": "A16", "C15": "A16"}, [(NV, "lambda ans, A, offset=0, axis1=0, axis2=1: lambda g: anp.make_diagonal(g, offset, axis1, axis2),", "lambda ans, A, offset=0, axis1=0, axis2=1: lambda g: anp.moveaxis(anp.make_diagonal(g, offset, axis1=-1, axis2=-2), (axis1, axis2), (-1, -2)),")]),
    ("index-order-A-ignores-c-contiguity", {"C01": "A7.order", "C02": "A7.order"}, [(NV, "    flags = onp.asarray(getval(x)).flags\n    if flags.c_contiguous:", "    flags = onp.asarray(getval(x)).flags\n    if order == \"A\":\n        return \"F\" if flags.f_contiguous else \"C\"\n    if flags.c_contiguous:")]),
    ("rfft2-adjoint-partner-is-irfftn", {"C01": "A2.fwd"}, [(FF, "defvjp(rfft2, lambda *args, **kwargs: rfft_grad(get_fft2_args, irfft2, *args, **kwargs))", "defvjp(rfft2, lambda *args, **kwargs: rfft_grad(get_fft2_args, irfftn, *args, **kwargs))")]),
    ("fftshift-vjp-loses-outer-conj", {"C09": "A4.parity"}, [(FF, "    fftshift, lambda ans, x, axes=None: lambda g: match_complex(x, anp.conj(ifftshift(anp.conj(g), axes)))", "    fftshift, lambda ans, x, axes=None: lambda g: match_complex(x, ifftshift(anp.conj(g), axes))")]),
    ("absolute-vjp-unguarded-again", {"C01": "A5.alias"}, [(NV, "defvjp(anp.absolute, lambda ans, x: lambda g: g * replace_zero(anp.conj(x), 0.0) / replace_zero(ans, 1.0))", "defvjp(anp.absolute, lambda ans, x: lambda g: g * anp.conj(x) / ans)")]),
    ("true-divide-jvp-sign", {"C02": "A5.alias"}, [(NJ, 'defjvp(anp.true_divide, "same", lambda g, ans, x, y: -g * x / y**2)', 'defjvp(anp.true_divide, "same", lambda g, ans, x, y: g * x / y**2)')]),
    ("sparse-add-returns-accumulator", {"C11": "A9.pure", "C10": "A9.pure"}, [(CO, "    x_prev = x_prev if x_prev is not None else vs.zeros()\n    return x_new.mut_add(x_prev)", "    x_prev = x_prev if x_prev is not None else vs.zeros()\n    x_new.mut_add(x_prev)\n    return x_prev")]),
    ("ggnvp-jvp-of-argument-zero", {"C16": "A15.products"}, [(DO, "        f_vjp, f_x = _make_vjp(f, x)\n        g_hvp, grad_g_x = _make_vjp(grad(g), f_x)", "        f_vjp, f_x = _make_vjp(f, x)\n        g_hvp, grad_g_x = _make_vjp(grad(g), x)")]),
    ("sort-jvp-drops-kind", {"C02": "A2.drop", "C04": "A2.drop"}, [(NJ, "    sort_perm = anp.argsort(x, axis, kind, order)", "    sort_perm = anp.argsort(x, axis=axis, order=order)")]),
    ("atleast-declared-linear-in-all-arguments", {"C02": "A1.lin"}, [(NJ, "defjvp(anp.atleast_1d, atleast_jvpmaker(anp.atleast_1d))", "def_linear(anp.atleast_1d)")]),
    ("einsum-list-format-unbroadcast-by-output-sublist", {"C05": "A3.einsum", "C01": "A3.einsum"}, [(NV, "            return unbroadcast_einsum(anp.einsum(g, *rest_of_ops), result_meta, operands[argnum + 1])", "            return unbroadcast_einsum(anp.einsum(g, *rest_of_ops), result_meta, operands[-1])")]),
    ("inner-product-in-fixed-double-precision", {"C13": "A9.pure"}, [(NS, "        return np.dot(np.ravel(x), np.ravel(y))", "        return np.dot(np.ravel(np.asarray(x, dtype=np.float64)), np.ravel(np.asarray(y, dtype=np.float64)))")]),
    ("tril-vjp-ignores-k", {"C01": "A2.ignored", "C15": "A2.ignored"}, [(NV, "defvjp(anp.tril, lambda ans, x, k=0: unbroadcast_f(x, lambda g: anp.tril(g, k=k)))", "defvjp(anp.tril, lambda ans, x, k=0: unbroadcast_f(x, lambda g: anp.tril(g)))")]),
    ("prod-jvp-swallows-options", {"C02": "A2.ignored", "C15": "A2.ignored"}, [(NJ, "    anp.prod, lambda g, ans, x, axis=None, keepdims=False: ans * anp.sum(g / x, axis=axis, keepdims=keepdims)", "    anp.prod, lambda g, ans, x, axis=None, keepdims=False, **options: ans * anp.sum(g / x, axis=axis, keepdims=keepdims)")]),
    ("roll-vjp-last-axis-when-none", {"C01": "A7.none"}, [(NV, "defvjp(anp.roll, lambda ans, x, shift, axis=None: lambda g: anp.roll(g, -shift, axis=axis))", "defvjp(anp.roll, lambda ans, x, shift, axis=None: lambda g: anp.roll(g, -shift, axis=-1 if axis is None else axis))")]),
    ("prod-jvp-full-shaped-for-single-element", {"C02": "A3.reduce"}, [(NJ, "    anp.prod, lambda g, ans, x, axis=None, keepdims=False: ans * anp.sum(g / x, axis=axis, keepdims=keepdims)", "    anp.prod, lambda g, ans, x, axis=None, keepdims=False: g if anp.size(x) == 1 else ans * anp.sum(g / x, axis=axis, keepdims=keepdims)")]),
    ("chooser-jvp-selects-greater-equal", {"C04": "A5.mask"}, [(NJ, "    chosen_locations = x == ans\n", "    chosen_locations = anp.isclose(x, ans)\n")]),
    ("astype-vjp-no-cast-back", {"C05": "A4.match", "C09": "A4.match"}, [(NV, "    lambda ans, A, dtype, order=\"K\", casting=\"unsafe\", subok=True, copy=True: lambda g: anp._astype(\n        g, A.dtype\n    ),", "    lambda ans, A, dtype, order=\"K\", casting=\"unsafe\", subok=True, copy=True: lambda g: g,")]),
    ("array-of-list-drops-options", {"C06": "A6.optpack"}, [(NW, "        return array_from_args(args, kwargs, *map(array, A))", "        return array_from_args((), {}, *map(array, A))")]),
    ("kron-vjp-reverses-captured-shape-in-place", {"C10": "A10"}, [(NV, "    def vjp(G):\n        A, B = anp.reshape(orig_A, A_shape), anp.reshape(orig_B, B_shape)", "    dims = list(A_shape)\n\n    def vjp(G):\n        dims.reverse()\n        A, B = anp.reshape(orig_A, tuple(dims)[::-1] if dims[:1] != list(A_shape[:1]) else A_shape), anp.reshape(orig_B, B_shape)")]),
    ("jvp-node-unboxes-answer", {"C08": "A2.slot"}, [(CO, "        self.g = jvpmaker(parent_argnums, parent_gs, value, args, kwargs)", "        self.g = jvpmaker(parent_argnums, parent_gs, getval(value), args, kwargs)")]),
    ("det-vjp-sums-cotangent-over-the-stack", {"C01": "A3.batch"}, [(LA, "defvjp(det, lambda ans, x: lambda g: add2d(g) * add2d(ans) * T(inv(x)))", "defvjp(det, lambda ans, x: lambda g: anp.sum(g) * add2d(ans) * T(inv(x)))")]),
    ("dict-space-equality-by-shape-only", {"C13": "A1.members"}, [(BU, "class DictVSpace(ContainerVSpace):\n    def _values(self, x):", "class DictVSpace(ContainerVSpace):\n    def __eq__(self, other):\n        return self.shape == getattr(other, \"shape\", None)\n\n    def _values(self, x):")]),
    ("dictbox-iterates-in-reverse", {"C06": "A14.containers", "C12": "A14.containers"}, [(BU, "    def __iter__(self):\n        return self._value.__iter__()", "    def __iter__(self):\n        return reversed(self._value)")]),
    ("trace-installs-a-warnings-filter", {"C19": "A11.state"}, [(TR, "            warnings.warn(\"Output seems independent of input.\")", "            warnings.simplefilter(\"once\")\n            warnings.warn(\"Output seems independent of input.\")")]),
    ("matmul-adjoint-fast-path-skips-kind-cast", {"C05": "A4.match", "C09": "A4.match"}, [(NV, "    _, A_ndim, _, _ = A_meta\n    if A_ndim == 1:\n        G = anp.expand_dims(G, anp.ndim(G) - 1)", "    _, A_ndim, _, _ = A_meta\n    if A_ndim == 2 and B_ndim == 2:\n        return anp.matmul(G, anp.swapaxes(B, 0, 1))\n    if A_ndim == 1:\n        G = anp.expand_dims(G, anp.ndim(G) - 1)")]),
    ("sqrt-jvp-of-modulus", {"C09": "A4.holo"}, [(NJ, "defjvp(anp.sqrt, lambda g, ans, x: g * 0.5 * x**-0.5)", "defjvp(anp.sqrt, lambda g, ans, x: g * 0.5 * anp.abs(x) ** -0.5)")]),
    ("trace-warns-only-at-level-zero", {"C19": "A12.cmp"}, [(TR, "            warnings.warn(\"Output seems independent of input.\")", "            if t < 1:\n                warnings.warn(\"Output seems independent of input.\")")]),
    ("untake-skips-scatter-for-scalars", {"C11": "A9.scatter"}, [(NV, "    def mut_add(A):\n        onp.add.at(A, idx, x)\n        return A", "    def mut_add(A):\n        if onp.ndim(x) or onp.ndim(A):\n            onp.add.at(A, idx, x)\n        return A")]),
    ("diff-jvp-same-again", {"C02": "A1.lin"}, [(NJ, "defjvp(anp.diff, fwd_grad_diff)", "defjvp(anp.diff, \"same\")")]),
    ("diff-jvp-pads-with-the-given-values", {"C02": "A5.lin", "C04": "A5.lin"}, [(NJ, "    return anp.diff(g, n, axis, *zero_ends, **zero_kw_ends)", "    return anp.diff(g, n, axis, *ends, **kw_ends)")]),
    ("broadcast-to-axes-by-zip-without-rank-assert", {"C05": "A3.rank", "C01": "A3.rank"}, [(NV, "    assert len(old_shape) == len(new_shape), \"Can't handle extra leading dims\"\n    broadcast_axes = tuple(\n        onp.where(onp.logical_and(onp.array(old_shape) == 1, onp.array(new_shape) > 1))[0]\n    )", "    broadcast_axes = tuple(i for i, (old, new) in enumerate(zip(old_shape, anp.shape(ans))) if old == 1 and new > 1)")]),
    ("complex-space-zeros-promoted-with-python-complex", {"C13": "A9.pure", "C14": "A9.pure"}, [(NS, "    def zeros(self):\n        return np.zeros(self.shape, dtype=self.dtype)", "    def zeros(self):\n        return np.zeros(self.shape, dtype=np.promote_types(self.dtype, np.float32))")]),
    ("container-space-loses-subval", {"C12": "A1.spaces"}, [(BU, "    def _subval(self, xs, idx, x):\n        d = dict(xs.items())\n        d[idx] = x\n        return d\n", "")]),
    ("cumsum-axis-branch-not-reshaped", {"C05": "A3.restore", "C01": "A3.restore"}, [(NV, "        else:\n            g_cumsum = anp.cumsum(g[::-1], axis)[::-1]\n        return anp.reshape(g_cumsum, anp.shape(x))", "        else:\n            g_cumsum = anp.reshape(anp.cumsum(g[::-1], axis)[::-1], anp.shape(x))\n        return g_cumsum")]),
    ("sort-gradient-not-reshaped", {"C05": "A3.restore"}, [(NV, "    return lambda g: anp.reshape(unpermuter(g, sort_perm), anp.shape(x))", "    return lambda g: unpermuter(g, sort_perm)")]),
    ("cumsum-reshaped-to-the-answers-shape", {"C05": "A3.restore"}, [(NV, "        return anp.reshape(g_cumsum, anp.shape(x))", "        return anp.reshape(g_cumsum, anp.shape(ans))")]),
    ("defvjp-declares-all-none-functions-nograd", {"C17": "A6.notrace"}, [(CO, "from .tracer import Box, Node, getval, isbox, primitive, toposort, trace", "from .tracer import Box, Node, getval, isbox, primitive, register_notrace, toposort, trace"), (CO, "    argnums = kwargs.get(\"argnums\", count())\n    vjps_dict = {", "    argnums = kwargs.get(\"argnums\", count())\n    if vjpmakers and all(vjpmaker is None for vjpmaker in vjpmakers):\n        register_notrace(VJPNode, fun)\n    vjps_dict = {")]),
    ("defjvp-grows-the-notrace-table", {"C17": "A6.notrace"}, [(CO, "from .tracer import Box, Node, getval, isbox, primitive, toposort, trace", "from . import tracer as _tracer\nfrom .tracer import Box, Node, getval, isbox, primitive, toposort, trace"), (CO, "def def_linear(fun):\n", "def def_linear(fun):\n    _tracer.notrace_primitives[VJPNode].discard(fun)\n    if fun is None:\n        _tracer.notrace_primitives[JVPNode].add(fun)\n")]),
    ("inner-prod-second-slot-gets-the-first-slots-rule", {"C03": "A5.selfread", "C04": "A5.selfread", "C01": "A5.selfread"}, [(CO, "    lambda ans, vs, x, y: lambda g: vs.covector(vs.scalar_mul(x, g)),\n)", "    lambda ans, vs, x, y: lambda g: vs.covector(vs.scalar_mul(y, g)),\n)")]),
    ("multiply-second-slot-multiplies-by-itself", {"C01": "A5.selfread", "C04": "A5.selfread"}, [(NV, "    lambda ans, x, y: unbroadcast_f(y, lambda g: x * g),", "    lambda ans, x, y: unbroadcast_f(y, lambda g: y * g),")]),
    ("rfft-forward-scale-copied-from-backward", {"C09": "A6.distinct", "C01": "A6.distinct"}, [(FF, "    elif norm == \"forward\":\n        fac *= N", "    elif norm == \"forward\":\n        fac /= N")]),
    ("mean-count-from-the-last-axis-only", {"C01": "A3.fold", "C07": "A3.fold"}, [(NV, "    def vjp(g):\n        g_repeated, num_reps = repeat_to_match_shape(g, shape, dtype, axis, keepdims)\n        return g_repeated / num_reps\n\n    return vjp\n\n\ndefvjp(anp.mean, grad_np_mean)", "    num_reps = anp.size(x)\n    if axis is not None:\n        for ax in axis if isinstance(axis, tuple) else (axis,):\n            num_reps = shape[ax]\n\n    def vjp(g):\n        return repeat_to_match_shape(g / num_reps, shape, dtype, axis, keepdims)[0]\n\n    return vjp\n\n\ndefvjp(anp.mean, grad_np_mean)")]),
    ("complex-probe-from-one-draw", {"C18": "A18.probe"}, [(NS, "        return np.array(np.random.randn(*self.shape)).astype(self.dtype) + 1.0j * np.array(\n            np.random.randn(*self.shape)\n        ).astype(self.dtype)", "        return np.array(self.ones() * np.random.randn(*self.shape)).astype(self.dtype)")]),
    ("complex-probe-without-imaginary-part", {"C18": "A18.probe"}, [(NS, "        return np.array(np.random.randn(*self.shape)).astype(self.dtype) + 1.0j * np.array(\n            np.random.randn(*self.shape)\n        ).astype(self.dtype)", "        return np.array(np.random.randn(*self.shape) + np.random.randn(*self.shape)).astype(self.dtype)")]),
    ("mean-where-count-on-the-unbroadcast-mask", {"C01": "A3.reduce"}, [(NV, "def grad_np_mean(ans, x, axis=None, keepdims=False):\n    shape, dtype = anp.shape(x), anp.result_type(x)\n\n    def vjp(g):\n        g_repeated, num_reps = repeat_to_match_shape(g, shape, dtype, axis, keepdims)\n        return g_repeated / num_reps", "def grad_np_mean(ans, x, axis=None, keepdims=False, where=True):\n    shape, dtype = anp.shape(x), anp.result_type(x)\n\n    def vjp(g):\n        g_repeated, num_reps = repeat_to_match_shape(g, shape, dtype, axis, keepdims)\n        if where is True:\n            return g_repeated / num_reps\n        return g_repeated * where / onp.sum(where, axis=axis, keepdims=True)")]),
    ("toposort-work-stack-as-mutable-default", {"C20": "A11.state", "C19": "A11.state"}, [(UTI, "def toposort(end_node, parents=operator.attrgetter(\"parents\")):\n    child_counts = {}\n    stack = [end_node]", "def toposort(end_node, parents=operator.attrgetter(\"parents\"), stack=[]):\n    child_counts = {}\n    stack.append(end_node)")]),
    ("std-zero-path-returns-the-scaled-cotangent-itself", {"C05": "A3.reduce", "C01": "A3.reduce"}, [(NV, "        if num_reps <= 1:\n            return g_repeated * 0.0", "        if num_reps <= 1:\n            if axis is None:\n                return g * 0.0\n            return (g if keepdims else anp.expand_dims(g, axis)) * 0.0")]),
    ("matmul-adjoint-skips-zero-cotangents", {"C08": "A5.cut", "C14": "A5.cut", "C07": "A5.lin"}, [(NV, "def matmul_adjoint_0(B, G, A_meta, B_ndim):\n    if anp.ndim(G) == 0:  # A_ndim == B_ndim == 1", "def matmul_adjoint_0(B, G, A_meta, B_ndim):\n    if not anp.any(G):\n        return onp.zeros(A_meta[0], dtype=A_meta[2])\n    if anp.ndim(G) == 0:  # A_ndim == B_ndim == 1")]),
    ("defvjp-single-rule-dispatcher-ignores-argnums", {"C17": "A13.align", "C03": "A13.align"}, [(CO, "    def vjp_argnums(argnums, ans, args, kwargs):\n        L = len(argnums)", "    if len(vjps_dict) == 1:\n        (vjpfun,) = vjps_dict.values()\n\n        def unary_vjp_argnums(argnums, ans, args, kwargs):\n            if len(argnums) != 1:\n                raise NotImplementedError(\"VJP wrt argnums {} not defined\".format(argnums))\n            vjp = vjpfun(ans, *args, **kwargs)\n            return lambda g: (vjp(g),)\n\n        defvjp_argnums(fun, unary_vjp_argnums)\n        return\n\n    def vjp_argnums(argnums, ans, args, kwargs):\n        L = len(argnums)")]),
    ("solve-gradient-not-reduced-to-its-argument", {"C05": "A3.vjp", "C01": "A3.vjp"}, [(LA, "        return lambda g: unbroadcast(match_complex(b, solve(T(a), g)), anp.metadata(b))", "        return lambda g: match_complex(b, solve(T(a), g))")]),
    ("solve-gradient-reduced-to-the-other-argument", {"C05": "A3.vjp"}, [(LA, "        return lambda g: unbroadcast(match_complex(b, solve(T(a), g)), anp.metadata(b))", "        return lambda g: unbroadcast(match_complex(b, solve(T(a), g)), anp.metadata(a))")]),
    ("linspace-gradient-not-reduced-to-its-endpoint", {"C05": "A3.vjp", "C01": "A3.vjp"}, [(NV, "    lambda ans, start, stop, num: unbroadcast_f(\n        stop, lambda g: anp.tensordot(anp.linspace(0.0, 1.0, num), g, 1)\n    ),", "    lambda ans, start, stop, num: lambda g: anp.tensordot(anp.linspace(0.0, 1.0, num), g, 1),")]),
    ("linspace-tangent-against-a-scalar-zero", {"C02": "A3.jvp"}, [(NJ, "    lambda g, ans, start, stop, *args, **kwargs: anp.linspace(\n        g, anp.zeros(anp.shape(stop)), *args, **kwargs\n    ),", "    lambda g, ans, start, stop, *args, **kwargs: anp.linspace(g, 0.0, *args, **kwargs),")]),
    ("tril-gradient-not-reduced-to-a-vector-operand", {"C05": "A3.restore", "C01": "A3.restore"}, [(NV, "defvjp(anp.tril, lambda ans, x, k=0: unbroadcast_f(x, lambda g: anp.tril(g, k=k)))", "defvjp(anp.tril, lambda ans, x, k=0: lambda g: anp.tril(g, k=k))")]),
    ("outer-gradient-left-flat", {"C05": "A3.restore"}, [(NV, "    lambda ans, a, b: lambda g: match_complex(a, anp.reshape(anp.dot(g, anp.ravel(b)), anp.shape(a))),", "    lambda ans, a, b: lambda g: match_complex(a, anp.dot(g, anp.ravel(b))),")]),
    ("outer-gradient-reshaped-to-the-other-argument", {"C05": "A3.restore"}, [(NV, "    lambda ans, a, b: lambda g: match_complex(a, anp.reshape(anp.dot(g, anp.ravel(b)), anp.shape(a))),", "    lambda ans, a, b: lambda g: match_complex(a, anp.reshape(anp.dot(g, anp.ravel(b)), anp.shape(b))),")]),
    ("diag-gradient-square-for-every-matrix", {"C05": "A3.restore", "C01": "A3.restore"}, [(NV, "        padded = anp.pad(square, ((0, max(rows - size, 0)), (0, max(cols - size, 0))), mode=\"constant\")\n        return padded[:rows, :cols]", "        return square")]),
    ("tile-reps-numbered-from-axis-zero", {"C01": "A3.rank", "C05": "A3.rank"}, [(NV, "        for axis, rep in enumerate(reps, first_axis):", "        for axis, rep in enumerate(reps):")]),
    ("kron-operands-promoted-separately", {"C01": "A3.rank"}, [(NV, "    ndim = max(anp.ndim(orig_A), anp.ndim(orig_B))\n", "    ndim = 2\n    orig_A, orig_B = anp.atleast_2d(orig_A), anp.atleast_2d(orig_B)\n")]),
]

BENIGN = [
    ("diff-jvp-zero-ends-via-map", [(NJ, "    zero_ends = [anp.zeros_like(end) for end in ends]", "    zero_ends = list(map(anp.zeros_like, ends))")]),
    ("broadcast-to-axes-by-zip-under-the-rank-assert", [(NV, "    broadcast_axes = tuple(\n        onp.where(onp.logical_and(onp.array(old_shape) == 1, onp.array(new_shape) > 1))[0]\n    )", "    broadcast_axes = tuple(i for i, (old, new) in enumerate(zip(old_shape, anp.shape(ans))) if old == 1 and new > 1)")]),
    ("power-exponent-rule-where-spelling", [(NJ, "    lambda g, ans, x, y: g * anp.log(replace_zero(x, 1.0)) * ans,", "    lambda g, ans, x, y: g * anp.log(anp.where(x, x, 1.0)) * ans,")]),
    ("trace-id-renamed", [(TR, "    with trace_stack.new_trace() as t:\n        start_box = new_box(x, t, start_node)", "    with trace_stack.new_trace() as level:\n        start_box = new_box(x, level, start_node)")]),
    ("sort-guards-by-ndim-of-argument", [(NV, "def grad_sort(ans, x, axis=-1, kind=\"quicksort\", order=None):\n    # TODO: Cast input with np.asanyarray()\n    if len(x.shape) > 1:", "def grad_sort(ans, x, axis=-1, kind=\"quicksort\", order=None):\n    if anp.ndim(x) > 1:"), (NJ, "def fwd_grad_sort(g, ans, x, axis=-1, kind=\"quicksort\", order=None):\n    if len(x.shape) > 1:", "def fwd_grad_sort(g, ans, x, axis=-1, kind=\"quicksort\", order=None):\n    if anp.ndim(x) > 1:")]),
    ("dict-space-equality-written-out", [(BU, "class DictVSpace(ContainerVSpace):\n    def _values(self, x):", "class DictVSpace(ContainerVSpace):\n    def __eq__(self, other):\n        return type(self) == type(other) and self.shape == other.shape\n\n    def _values(self, x):")]),
    ("dictbox-iter-builtin", [(BU, "    def __iter__(self):\n        return self._value.__iter__()", "    def __iter__(self):\n        return iter(self._value)")]),
    ("trace-warning-under-catch-warnings", [(TR, "            warnings.warn(\"Output seems independent of input.\")", "            with warnings.catch_warnings():\n                warnings.simplefilter(\"always\")\n                warnings.warn(\"Output seems independent of input.\")")]),
    ("det-vjp-einsum-spelling", [(LA, "defvjp(det, lambda ans, x: lambda g: add2d(g) * add2d(ans) * T(inv(x)))", "defvjp(det, lambda ans, x: lambda g: add2d(g * ans) * T(inv(x)))")]),
    ("tril-vjp-k-positional", [(NV, "defvjp(anp.tril, lambda ans, x, k=0: unbroadcast_f(x, lambda g: anp.tril(g, k=k)))", "defvjp(anp.tril, lambda ans, x, k=0: unbroadcast_f(x, lambda g: anp.tril(g, k)))")]),
    ("roll-vjp-def-form", [(NV, "defvjp(anp.roll, lambda ans, x, shift, axis=None: lambda g: anp.roll(g, -shift, axis=axis))", "def _grad_roll(ans, x, shift, axis=None):\n    back = -shift\n    if axis is None:\n        return lambda g: anp.reshape(anp.roll(anp.ravel(g), back, 0), anp.shape(x))\n    return lambda g: anp.roll(g, back, axis)\n\n\ndefvjp(anp.roll, _grad_roll)")]),
    ("chooser-jvp-scalar-test-by-ndim", [(NJ, "    if anp.isscalar(x):\n        return g\n    if not keepdims:", "    if anp.ndim(x) == 0:\n        return g\n    if not keepdims:")]),
    ("clip-vjp-mask-strict-inequalities", [(NV, "unbroadcast_f(x, lambda g: g * anp.logical_and(ans != a_min, ans != a_max))", "unbroadcast_f(x, lambda g: g * anp.logical_and(ans > a_min, ans < a_max))")]),
    ("chooser-vjp-mask-via-equal", [(NV, "        argmax_locations = x == repeat_to_match_shape(ans, shape, dtype, axis, keepdims)[0]", "        argmax_locations = anp.equal(x, repeat_to_match_shape(ans, shape, dtype, axis, keepdims)[0])")]),
    ("array-of-list-comprehension", [(NW, "        return array_from_args(args, kwargs, *map(array, A))", "        return array_from_args(args, kwargs, *[array(a) for a in A])")]),
    ("kron-vjp-interleaved-sizes-grown-in-a-local-list", [(NV, "        interleaved = [size for sizes in zip(A_shape, B_shape) for size in sizes]", "        interleaved = []\n        for sizes in zip(A_shape, B_shape):\n            interleaved.extend(sizes)")]),
    ("astype-vjp-cast-by-method", [(NV, "    lambda ans, A, dtype, order=\"K\", casting=\"unsafe\", subok=True, copy=True: lambda g: anp._astype(\n        g, A.dtype\n    ),", "    lambda ans, A, dtype, order=\"K\", casting=\"unsafe\", subok=True, copy=True: lambda g: anp._astype(g, anp.result_type(A)),")]),
    ("diagonal-vjp-moveaxis-correct", [(NV, "lambda ans, A, offset=0, axis1=0, axis2=1: lambda g: anp.make_diagonal(g, offset, axis1, axis2),", "lambda ans, A, offset=0, axis1=0, axis2=1: lambda g: anp.moveaxis(anp.make_diagonal(g, offset, axis1=-1, axis2=-2), (-1, -2), (axis1, axis2)),")]),
    ("index-order-A-by-isfortran", [(NV, "    flags = onp.asarray(getval(x)).flags\n    if flags.c_contiguous:", "    if order == \"A\":\n        return \"F\" if onp.isfortran(onp.asarray(getval(x))) else \"C\"\n    flags = onp.asarray(getval(x)).flags\n    if flags.c_contiguous:")]),
    ("scalar-space-registration-by-issubclass-of-complexfloating", [(NS, "for type_ in [float, np.longdouble, np.float64, np.float32, np.float16]:\n    ArrayVSpace.register(type_)\n\nfor type_ in [complex, np.clongdouble, np.complex64, np.complex128]:\n    ComplexArrayVSpace.register(type_)", "for type_ in [float, np.longdouble, np.float64, np.float32, np.float16, complex, np.clongdouble, np.complex64, np.complex128]:\n    if issubclass(type_, (complex, np.complexfloating)):\n        ComplexArrayVSpace.register(type_)\n    else:\n        ArrayVSpace.register(type_)")]),
    ("container-basis-yield-from", [(BU, "        for i, vs in self._kv_pairs(self.shape):\n            for x in vs.standard_basis():\n                yield self._subval(zero, i, x)", "        for key, child in self._kv_pairs(self.shape):\n            yield from (self._subval(zero, key, e) for e in child.standard_basis())")]),
    ("dot-adjoint-kind-by-issubdtype", [(NV, "    return onp.asarray(out, dtype=A_dtype)", "    if onp.iscomplexobj(out) and not onp.issubdtype(A_dtype, onp.complexfloating):\n        out = onp.real(out)\n    return onp.asarray(out, dtype=A_dtype)")]),
    ("toposort-counting-in-nested-helper", [("autograd/util.py", "    child_counts = {}\n    stack = [end_node]\n    while stack:\n        node = stack.pop()\n        if node in child_counts:\n            child_counts[node] += 1\n        else:\n            child_counts[node] = 1\n            stack.extend(parents(node))\n", "    child_counts = {}\n    stack = [end_node]\n\n    def visit(node):\n        if node in child_counts:\n            child_counts[node] += 1\n        else:\n            child_counts[node] = 1\n            stack.extend(parents(node))\n\n    while stack:\n        visit(stack.pop())\n")]),
    ("index-order-membership-test", [(NV, '    if order not in ("A", "K"):\n        return order\n    flags = onp.asarray(getval(x)).flags', '    if order != "A" and order != "K":\n        return order\n    flags = onp.asarray(getval(x)).flags')]),
    ("ravel-vjp-order-resolved-at-forward-time", [(NV, "defvjp(anp.ravel, lambda ans, x, order=None: lambda g: anp.reshape(g, anp.shape(x), order=index_order(x, order)))", "def _grad_ravel(ans, x, order=None):\n    how = index_order(x, order)\n    return lambda g: anp.reshape(g, anp.shape(x), order=how)\n\n\ndefvjp(anp.ravel, _grad_ravel)")]),
    ("flatten-explicit-c-order", [("autograd/misc/flatten.py", "        return np.ravel(value)", '        return np.ravel(value, order="C")')]),
    ("alpha-rename-rule-params", [(NV, "    lambda ans, x, y: unbroadcast_f(x, lambda g: y * g),\n    lambda ans, x, y: unbroadcast_f(y, lambda g: x * g),", "    lambda ans, a, b: unbroadcast_f(a, lambda ct: b * ct),\n    lambda ans, a, b: unbroadcast_f(b, lambda ct: a * ct),")]),
    ("commute-factor-sin", [(NV, "defvjp(anp.sin, lambda ans, x: lambda g: g * anp.cos(x))", "defvjp(anp.sin, lambda ans, x: lambda g: anp.cos(x) * g)")]),
    ("square-as-product", [(NV, "defvjp(anp.arctan, lambda ans, x: lambda g: g / (1 + x**2))", "defvjp(anp.arctan, lambda ans, x: lambda g: g / (1 + x * x))")]),
    ("division-as-reciprocal-product", [(NV, "    lambda ans, x, y: unbroadcast_f(x, lambda g: g / y),\n    lambda ans, x, y: unbroadcast_f(y, lambda g: -g * x / y**2),\n)\ndefvjp(\n    anp.maximum,", "    lambda ans, x, y: unbroadcast_f(x, lambda g: g * (1 / y)),\n    lambda ans, x, y: unbroadcast_f(y, lambda g: -g * x / y**2),\n)\ndefvjp(\n    anp.maximum,")]),
    ("lambda-to-def", [(NV, "defvjp(anp.exp, lambda ans, x: lambda g: ans * g)", "def _exp_vjp(ans, x):\n    def vjp(g):\n        return ans * g\n\n    return vjp\n\n\ndefvjp(anp.exp, _exp_vjp)")]),
    ("unbroadcast-f-written-out", [(NV, "    anp.add, lambda ans, x, y: unbroadcast_f(x, lambda g: g), lambda ans, x, y: unbroadcast_f(y, lambda g: g)\n", "    anp.add,\n    lambda ans, x, y: (lambda meta: lambda g: unbroadcast(g, meta))(anp.metadata(x)),\n    lambda ans, x, y: unbroadcast_f(y, lambda g: g),\n")]),
    ("try-finally-around-decrement", [(TR, "        self.top += 1\n        yield self.top\n        self.top -= 1", "        self.top += 1\n        try:\n            yield self.top\n        finally:\n            self.top -= 1")]),
    ("reordered-registrations", [(NV, "defvjp(anp.exp, lambda ans, x: lambda g: ans * g)\ndefvjp(anp.exp2, lambda ans, x: lambda g: ans * anp.log(2) * g)", "defvjp(anp.exp2, lambda ans, x: lambda g: ans * anp.log(2) * g)\ndefvjp(anp.exp, lambda ans, x: lambda g: ans * g)")]),
    ("extra-constant-function-in-nograd", [(NV, "    anp.result_type,\n]", "    anp.result_type,\n    anp.isrealobj,\n    anp.digitize,\n]")]),
    ("extra-linear-primitive-same", [(NJ, 'defjvp(anp.cumsum, "same")', 'defjvp(anp.cumsum, "same")\ndefjvp(anp.flip, "same")')]),
    ("comments-and-blank-lines", [(NV, "# ----- Binary ufuncs -----\n", "# ----- Binary ufuncs -----\n#\n# (reformatted)\n\n\n"), (CO, "def backward_pass(g, end_node):\n", 'def backward_pass(g, end_node):\n    """Propagate g from end_node to the root."""\n'), (TR, "def find_top_boxed_args(args):\n", "def find_top_boxed_args(args):\n    # scan for the innermost trace\n")]),
    ("rename-locals-backward-pass", [(CO, "    outgrads = {end_node: (g, False)}\n    for node in toposort(end_node):\n        outgrad = outgrads.pop(node)\n        ingrads = node.vjp(outgrad[0])\n        for parent, ingrad in zip(node.parents, ingrads):\n            outgrads[parent] = add_outgrads(outgrads.get(parent), ingrad)\n    return outgrad[0]", "    acc = {end_node: (g, False)}\n    for n in toposort(end_node):\n        cur = acc.pop(n)\n        contribs = n.vjp(cur[0])\n        for p, c in zip(n.parents, contribs):\n            acc[p] = add_outgrads(acc.get(p), c)\n    return cur[0]")]),
    ("rename-locals-wrapper", [(TR, "        boxed_args, trace, node_constructor = find_top_boxed_args(args)\n        if boxed_args:\n            argvals = subvals(args, [(argnum, box._value) for argnum, box in boxed_args])\n            if f_wrapped in notrace_primitives[node_constructor]:\n                return f_wrapped(*argvals, **kwargs)\n            parents = tuple(box._node for _, box in boxed_args)\n            argnums = tuple(argnum for argnum, _ in boxed_args)\n            ans = f_wrapped(*argvals, **kwargs)\n            node = node_constructor(ans, f_wrapped, argvals, kwargs, argnums, parents)\n            return new_box(ans, trace, node)", "        tops, tid, ctor = find_top_boxed_args(args)\n        if tops:\n            vals = subvals(args, [(i, b._value) for i, b in tops])\n            if f_wrapped in notrace_primitives[ctor]:\n                return f_wrapped(*vals, **kwargs)\n            nums = tuple(i for i, _ in tops)\n            pars = tuple(b._node for _, b in tops)\n            out = f_wrapped(*vals, **kwargs)\n            nd = ctor(out, f_wrapped, vals, kwargs, nums, pars)\n            return new_box(out, tid, nd)")]),
    ("flipped-comparison-find-top", [(TR, "            if trace > top_trace:", "            if top_trace < trace:")]),
    ("normalise-axis-with-modulo", [(NV, "    if axis is not None and axis < 0:\n        axis = axis + len(shape)\n", "    if axis is not None:\n        axis = axis % len(shape)\n")]),
    ("make-vjp-inverted-test", [(CO, "    if end_node is None:\n\n        def vjp(g):\n            return vspace(x).zeros()\n    else:\n\n        def vjp(g):\n            return backward_pass(g, end_node)", "    if end_node is not None:\n\n        def vjp(g):\n            return backward_pass(g, end_node)\n    else:\n\n        def vjp(g):\n            return vspace(x).zeros()")]),
    ("commute-constant-square", [(NV, "defvjp(anp.square, lambda ans, x: lambda g: g * 2 * x)", "defvjp(anp.square, lambda ans, x: lambda g: 2 * g * x)")]),
    ("helper-extracted", [(NV, "defvjp(anp.deg2rad, lambda ans, x: lambda g: g * anp.pi / 180.0)", "def _scale(g, c):\n    return g * c\n\n\ndefvjp(anp.deg2rad, lambda ans, x: lambda g: _scale(g, anp.pi / 180.0))")]),
    ("rename-value-and-grad-locals", [(DO, "    vjp, ans = _make_vjp(fun, x)\n    if not vspace(ans).size == 1:\n        raise TypeError(\n            \"value_and_grad only applies", "    pullback, val = _make_vjp(fun, x)\n    ans, vjp = val, pullback\n    if not vspace(ans).size == 1:\n        raise TypeError(\n            \"value_and_grad only applies")]),
    ("conj-alias-in-covector", [(NS, "    def _covector(self, x):\n        return np.conj(x)", "    def _covector(self, x):\n        return np.conjugate(x)")]),
    ("dependence-test-against-yielded-id", [(TR, "        if isbox(end_box) and end_box._trace == start_box._trace:", "        if isbox(end_box) and end_box._trace == t:")]),
    ("same-jvp-written-out", [(NJ, 'defjvp(anp.negative, "same")', "defjvp(anp.negative, lambda g, ans, x: -g)")]),
    ("gradient-accumulator-augassign", [(NV, "            out = out + anp.swapaxes(out_axis, 0, a)", "            out += anp.swapaxes(out_axis, 0, a)")]),
    ("match-complex-inlined-as-helper-call", [(NV, "defvjp(anp.real, lambda ans, x: lambda g: match_complex(x, g))", "def _to_kind_of(x):\n    return lambda g: match_complex(x, g)\n\n\ndefvjp(anp.real, lambda ans, x: _to_kind_of(x))")]),
    ("extra-guard-in-jvp", [(NJ, "def fwd_grad_sort(g, ans, x, axis=-1, kind=\"quicksort\", order=None):\n", "def fwd_grad_sort(g, ans, x, axis=-1, kind=\"quicksort\", order=None):\n    if order is not None:\n        raise NotImplementedError(\"structured sort order\")\n")]),
    ("add-outgrads-sparse-first", [(CO, "    else:\n        if sparse:\n            return sparse_add(vspace(g), None, g), True\n        else:\n            return g, False", "    else:\n        if not sparse:\n            return g, False\n        return sparse_add(vspace(g), None, g), True")]),
    ("checker-early-returns-and-temporaries", [(TUF, "    vjv_exact = x_vs.inner_prod(x_v, vjp_y)\n    vjv_numeric = y_vs.inner_prod(y_v, jvp(x_v))", "    tangent_out = jvp(x_v)\n    vjv_numeric = y_vs.inner_prod(y_v, tangent_out)\n    vjv_exact = x_vs.inner_prod(x_v, vjp_y)"), (TUF, "    return abs(a - b) < TOL or abs(a - b) / abs(a + b) < RTOL", "    diff = abs(a - b)\n    if diff < TOL:\n        return True\n    return diff / abs(a + b) < RTOL")]),
    ("checker-rev-branch-first", [(TUF, '    if "fwd" in modes:\n        check_jvp(f, x)\n        if order > 1:\n            grad_f = lambda x, v: make_jvp(f, x)(v)[1]\n            grad_f.__name__ = f"jvp_{get_name(f)}"\n            v = vspace(x).randn()\n            check_grads(grad_f, (0, 1), modes, order=order - 1)(x, v)\n    if "rev" in modes:\n        check_vjp(f, x)\n        if order > 1:\n            grad_f = lambda x, v: make_vjp(f, x)[0](v)\n            grad_f.__name__ = f"vjp_{get_name(f)}"\n            v = vspace(f(x)).randn()\n            check_grads(grad_f, (0, 1), modes, order=order - 1)(x, v)', '    higher = order > 1\n    if "rev" in modes:\n        check_vjp(f, x)\n        if higher:\n\n            def vjp_of_f(x, v):\n                return make_vjp(f, x)[0](v)\n\n            vjp_of_f.__name__ = f"vjp_{get_name(f)}"\n            check_grads(vjp_of_f, (0, 1), modes, order=order - 1)(x, vspace(f(x)).randn())\n    if "fwd" in modes:\n        check_jvp(f, x)\n        if higher:\n\n            def jvp_of_f(x, v):\n                return make_jvp(f, x)(v)[1]\n\n            jvp_of_f.__name__ = f"jvp_{get_name(f)}"\n            check_grads(jvp_of_f, (0, 1), modes, order=order - 1)(x, vspace(x).randn())')]),
    ("new-trace-explicit-assignments", [(TR, "        self.top += 1\n        yield self.top\n        self.top -= 1", "        self.top = self.top + 1\n        yield self.top\n        self.top = self.top - 1")]),
    ("new-trace-local-id", [(TR, "        self.top += 1\n        yield self.top\n        self.top -= 1", "        trace_id = self.top + 1\n        self.top = trace_id\n        yield trace_id\n        self.top = trace_id - 1")]),
    ("new-trace-local-copy", [(TR, "        self.top += 1\n        yield self.top\n        self.top -= 1", "        self.top += 1\n        yield self.top\n        self.top -= 1\n        # balanced")]),
    ("toposort-decrement-then-test", [("autograd/util.py", "            if child_counts[parent] == 1:\n                childless_nodes.append(parent)\n            else:\n                child_counts[parent] -= 1", "            child_counts[parent] -= 1\n            if child_counts[parent] == 0:\n                childless_nodes.append(parent)")]),
    ("toposort-not-in-first", [("autograd/util.py", "        if node in child_counts:\n            child_counts[node] += 1\n        else:\n            child_counts[node] = 1\n            stack.extend(parents(node))", "        if node not in child_counts:\n            child_counts[node] = 1\n            stack.extend(parents(node))\n        else:\n            child_counts[node] += 1")]),
    ("container-lambda-renamed", [(BU, "return self._map(lambda vs, x, y: vs._add(x, y), xs, ys)", "return self._map(lambda space, a, b: space._add(a, b), xs, ys)")]),
    ("untake-normalisation-in-helper", [(NV, "    if isinstance(idx, list) and (len(idx) == 0 or not isinstance(idx[0], slice)):\n        idx = onp.array(idx, dtype=\"int64\")\n\n    def mut_add(A):", "    idx = _as_index(idx)\n\n    def mut_add(A):"), (NV, "@primitive\ndef untake(x, idx, vs):", "def _as_index(idx):\n    if isinstance(idx, list) and (len(idx) == 0 or not isinstance(idx[0], slice)):\n        return onp.array(idx, dtype=\"int64\")\n    return idx\n\n\n@primitive\ndef untake(x, idx, vs):")]),
    ("zeros-local-inside-closure", [(CO, "        def vjp(g):\n            return vspace(x).zeros()", "        def vjp(g):\n            z = vspace(x).zeros()\n            return z")]),
    ("extend-right-index-from-end", [(BU, "    return lambda g: g[: len(seq)] if argnum == 0 else g[len(seq) + argnum - 1]", "    return lambda g: g[: len(seq)] if argnum == 0 else g[argnum - 1 - len(elts)]")]),
    ("extend-right-slice-via-len-g", [(BU, "    return lambda g: g[: len(seq)] if argnum == 0 else g[len(seq) + argnum - 1]", "    return lambda g: g[: len(g) - len(elts)] if argnum == 0 else g[len(seq) + argnum - 1]")]),
    ("array-vspace-init-asanyarray", [(NS, "        value = np.asarray(value)\n        self.shape = value.shape\n        self.dtype = value.dtype", "        arr = np.asarray(value)\n        self.dtype = arr.dtype\n        self.shape = arr.shape")]),
    ("whole-package-reprinted-with-ast-unparse", [("<reprint>", "", "")]),
    ("swapaxes-vjp-same-order", [(NV, "lambda g: anp.swapaxes(g, axis2, axis1)", "lambda g: anp.swapaxes(g, axis1, axis2)")]),
    ("moveaxis-vjp-keywords", [(NV, "lambda g: anp.moveaxis(g, destination, source)", "lambda g: anp.moveaxis(g, source=destination, destination=source)")]),
    ("methods-bound-with-getattr", [(NB, "    setattr(ArrayBox, method_name, anp.__dict__[method_name])", "    setattr(ArrayBox, method_name, getattr(anp, method_name))")]),
    ("repeated-axes-guard-rewritten", [(FF, "    axes_set = set(axes)\n    if len(axes) != len(axes_set):", "    if len(set(axes)) < len(axes):")]),
    ("squeeze-positional-axis", [(NV, "return lambda g: anp.squeeze(g, axis=tuple(range(ndmin - scarray_ndim)))", "return lambda g: anp.squeeze(g, tuple(range(ndmin - scarray_ndim)))")]),
    ("stack-normalise-with-modulo", [(NW, "    if axis < 0:\n        axis += result_ndim", "    axis = axis % result_ndim")]),
    ("where-with-zeros-like", [(NV, "    lambda ans, c, x=None, y=None: unbroadcast_f(x, lambda g: anp.where(c, g, anp.zeros(g.shape))),", "    lambda ans, c, x=None, y=None: unbroadcast_f(x, lambda g: anp.where(c, g, anp.zeros_like(g))),")]),
    ("cumsum-reshape-by-method-and-vspace-shape", [(NV, "        return anp.reshape(g_cumsum, anp.shape(x))", "        return g_cumsum.reshape(vspace(x).shape)")]),
    ("sort-gradient-reshape-via-local-shape", [(NV, "    sort_perm = anp.argsort(x, axis, kind, order)\n    return lambda g: anp.reshape(unpermuter(g, sort_perm), anp.shape(x))", "    sort_perm = anp.argsort(x, axis, kind, order)\n    x_shape = anp.shape(x)\n    return lambda g: anp.reshape(unpermuter(g, sort_perm), x_shape)")]),
    ("nograd-declarations-through-a-module-helper", [(NV, "for fun in nograd_functions:\n    register_notrace(VJPNode, fun)", "declare_nograd = partial(register_notrace, VJPNode)\nfor fun in nograd_functions:\n    declare_nograd(fun)")]),
    ("inner-prod-rule-takes-the-space-from-its-own-argument", [(CO, "    lambda ans, vs, x, y: lambda g: vs.covector(vs.scalar_mul(x, g)),\n)", "    lambda ans, vs, x, y: lambda g: vspace(y).covector(vs.scalar_mul(x, g)),\n)")]),
    ("rfft-norm-scales-from-a-table", [(FF, "    if norm is None or norm == \"backward\":\n        fac /= N\n    elif norm == \"forward\":\n        fac *= N\n    elif norm != \"ortho\":\n        raise NotImplementedError(\"Real FFT gradient not implemented for norm={}\".format(norm))\n    return fac", "    scales = {None: 1.0 / N, \"backward\": 1.0 / N, \"ortho\": 1.0, \"forward\": N}\n    if norm not in scales:\n        raise NotImplementedError(\"Real FFT gradient not implemented for norm={}\".format(norm))\n    return fac * scales[norm]")]),
    ("dot-rule-metadata-through-map", [(NV, "def dot_vjp_0(ans, A, B):\n    A_meta, B_meta = anp.metadata(A), anp.metadata(B)\n    return lambda g: match_complex(A, dot_adjoint_0(B, g, A_meta, B_meta))", "def dot_vjp_0(ans, A, B):\n    metas = [anp.metadata(operand) for operand in (A, B)]\n    return lambda g: match_complex(A, dot_adjoint_0(B, g, *metas))")]),
    ("mean-count-as-product-over-the-axes", [(NV, "    def vjp(g):\n        g_repeated, num_reps = repeat_to_match_shape(g, shape, dtype, axis, keepdims)\n        return g_repeated / num_reps\n\n    return vjp\n\n\ndefvjp(anp.mean, grad_np_mean)", "    num_reps = anp.size(x)\n    if axis is not None:\n        num_reps = 1\n        for ax in axis if isinstance(axis, tuple) else (axis,):\n            num_reps = num_reps * shape[ax]\n\n    def vjp(g):\n        return repeat_to_match_shape(g, shape, dtype, axis, keepdims)[0] / num_reps\n\n    return vjp\n\n\ndefvjp(anp.mean, grad_np_mean)")]),
    ("complex-probe-one-draw-with-a-leading-pair-axis", [(NS, "        return np.array(np.random.randn(*self.shape)).astype(self.dtype) + 1.0j * np.array(\n            np.random.randn(*self.shape)\n        ).astype(self.dtype)", "        re, im = np.random.randn(2, *self.shape)\n        return np.array(re).astype(self.dtype) + 1.0j * np.array(im).astype(self.dtype)")]),
    ("mean-where-count-on-the-broadcast-mask", [(NV, "def grad_np_mean(ans, x, axis=None, keepdims=False):\n    shape, dtype = anp.shape(x), anp.result_type(x)\n\n    def vjp(g):\n        g_repeated, num_reps = repeat_to_match_shape(g, shape, dtype, axis, keepdims)\n        return g_repeated / num_reps", "def grad_np_mean(ans, x, axis=None, keepdims=False, where=True):\n    shape, dtype = anp.shape(x), anp.result_type(x)\n\n    def vjp(g):\n        g_repeated, num_reps = repeat_to_match_shape(g, shape, dtype, axis, keepdims)\n        if where is True:\n            return g_repeated / num_reps\n        return g_repeated * where / onp.sum(onp.broadcast_to(where, shape), axis=axis, keepdims=True)")]),
    ("find-top-three-way-split", [(TR, "        if isbox(arg):\n            trace = arg._trace\n            if trace > top_trace:\n                top_boxes = [(argnum, arg)]\n                top_trace = trace\n                top_node_type = type(arg._node)\n            elif trace == top_trace:\n                top_boxes.append((argnum, arg))", "        if isbox(arg):\n            trace = arg._trace\n            if trace < top_trace:\n                continue\n            if trace == top_trace:\n                top_boxes.append((argnum, arg))\n            else:\n                top_boxes = [(argnum, arg)]\n                top_trace = trace\n                top_node_type = type(arg._node)")]),
    ("sum-jvp-options-merged-into-one-dict", [(NJ, "    return anp.sum(g, axis=axis, dtype=dtype, keepdims=keepdims, **kwargs)", "    options = dict(kwargs, axis=axis, dtype=dtype, keepdims=keepdims)\n    return anp.sum(g, **options)")]),
    ("solve-gradient-unbroadcast-via-local-metadata", [(LA, "    vector_rhs = anp.ndim(ans) == anp.ndim(a) - 1\n", "    vector_rhs = anp.ndim(ans) == anp.ndim(a) - 1\n    a_meta, b_meta = anp.metadata(a), anp.metadata(b)\n"), (LA, "        return lambda g: unbroadcast(match_complex(b, solve(T(a), g)), anp.metadata(b))", "        return lambda g: unbroadcast(match_complex(b, solve(T(a), g)), b_meta)")]),
    ("linspace-tangent-against-zeros-like-the-other-endpoint", [(NJ, "    lambda g, ans, start, stop, *args, **kwargs: anp.linspace(\n        g, anp.zeros(anp.shape(stop)), *args, **kwargs\n    ),", "    lambda g, ans, start, stop, *args, **kwargs: anp.linspace(g, anp.zeros_like(stop), *args, **kwargs),")]),
    ("tril-triu-rules-from-one-factory", [(NV, "defvjp(anp.triu, lambda ans, x, k=0: unbroadcast_f(x, lambda g: anp.triu(g, k=k)))\ndefvjp(anp.tril, lambda ans, x, k=0: unbroadcast_f(x, lambda g: anp.tril(g, k=k)))", "def _triangle_rule(tri):\n    return lambda ans, x, k=0: unbroadcast_f(x, partial(tri, k=k))\n\n\nfor _tri in (anp.triu, anp.tril):\n    defvjp(_tri, _triangle_rule(_tri))")]),
    ("diag-crop-written-with-slice-objects", [(NV, "        return padded[:rows, :cols]", "        return padded[slice(None, rows), slice(None, cols)]")]),
    ("tile-reps-offset-from-the-answers-rank", [(NV, "    first_axis = max(len(x_shape) - len(reps), 0)", "    first_axis = anp.ndim(ans) - len(reps)")]),
    ("kron-common-rank-from-the-answer", [(NV, "    ndim = max(anp.ndim(orig_A), anp.ndim(orig_B))\n", "    ndim = anp.ndim(ans)\n")]),
    ("diag-crop-one-slice-per-entry-of-the-shape", [(NV, "        return padded[:rows, :cols]", "        return padded[tuple(slice(0, extent) for extent in anp.shape(x))]")]),
    ("cumsum-flip-helper-with-leading-axis-fallback", [(NV, "        if axis:\n            g_cumsum = reverse_axis(anp.cumsum(reverse_axis(g, axis), axis), axis)\n        else:\n            g_cumsum = anp.cumsum(g[::-1], axis)[::-1]\n        return anp.reshape(g_cumsum, anp.shape(x))", "        flipped = lambda a: reverse_axis(a, axis) if axis else a[::-1]\n        g_cumsum = flipped(anp.cumsum(flipped(g), axis))\n        return anp.reshape(g_cumsum, anp.shape(x))")]),
]



def _kept_patches():
    """Independently written changes kept under /verif/seeded: every <Cxx>*/patch.diff that its own property's
    check reported when it was evaluated (evaluation.json) is a mutant for that property (any rule); every
    benign/<id>/patch.diff is a behaviour-preserving refactoring that must leave all checks silent."""
    import json

    base = os.path.join(os.path.dirname(os.path.dirname(os.path.abspath(__file__))), "seeded")
    muts, bens = [], []
    if not os.path.isdir(base):
        return muts, bens
    for sid in sorted(os.listdir(base)):
        pd = os.path.join(base, sid, "patch.diff")
        evf = os.path.join(base, sid, "evaluation.json")
        own = sid.split("-")[0]
        if sid.startswith("C") and os.path.exists(pd) and os.path.exists(evf):
            try:
                ev_ = json.load(open(evf))
                fired = ev_.get("checks_fired", {})
            except Exception:
                continue
            if ev_.get("neutralised_by"):
                continue  # the rule the seed modified was rewritten by a later fix: nothing left to apply the patch to
            if own in fired and fired[own].get("exit", 1) == 1:
                muts.append((f"seeded/{sid}", {own: ""}, [("<patch>", pd, "")]))
    bdir = os.path.join(base, "benign")
    if os.path.isdir(bdir):
        for bid in sorted(os.listdir(bdir)):
            pd = os.path.join(bdir, bid, "patch.diff")
            if os.path.exists(pd):
                bens.append((f"seeded/benign/{bid}", [("<patch>", pd, "")]))
    return muts, bens


_SEED_MUTANTS, _SEED_BENIGN = _kept_patches()
MUTANTS = MUTANTS + _SEED_MUTANTS
BENIGN = BENIGN + _SEED_BENIGN

ALL_PROPS = ["C01", "C02", "C03", "C04", "C05", "C06", "C07", "C08", "C09", "C10", "C11", "C12", "C13", "C14", "C15", "C16", "C17", "C18", "C19", "C20"]


def _reprint(d):
    """re-print every module through ast.unparse: new layout, quotes, parentheses and line numbers, no comments"""
    import ast

    for dp, dn, fn in os.walk(os.path.join(d, "autograd")):
        for f in fn:
            if f.endswith(".py"):
                p = os.path.join(dp, f)
                src = open(p).read()
                open(p, "w").write(ast.unparse(ast.parse(src)) + "\n")


def _scratch(root, edits):
    """copy <root>/autograd into a fresh scratch dir and apply the edits; returns (dir, status)"""
    d = tempfile.mkdtemp(prefix=f"vsa-{os.getpid()}-")
    shutil.copytree(os.path.join(root, "autograd"), os.path.join(d, "autograd"), ignore=shutil.ignore_patterns("__pycache__", "*.pyc"))
    if edits and edits[0][0] == "<reprint>":
        _reprint(d)
        return d, "ok"
    if edits and edits[0][0] == "<patch>":
        import subprocess

        r = subprocess.run(["patch", "-p1", "-s", "-i", edits[0][1]], cwd=d, capture_output=True, text=True)
        if r.returncode != 0:
            return d, f"inapplicable: {os.path.basename(os.path.dirname(edits[0][1]))}/patch.diff no longer applies"
        return d, "ok"
    for f, old, new in edits:
        p = os.path.join(d, f)
        try:
            s = open(p).read()
        except FileNotFoundError:
            return d, f"inapplicable: {f} missing"
        if s.count(old) != 1:
            return d, f"inapplicable: anchor text occurs {s.count(old)} times in {f}"
        s = s.replace(old, new)
        try:
            compile(s, p, "exec")
        except SyntaxError as e:
            return d, f"inapplicable: edit does not compile: {e}"
        open(p, "w").write(s)
    return d, "ok"


def _run_variant(args):
    kind, name, expected, edits, props, root = args
    from .props import analyse_quiet

    d, status = _scratch(root, edits)
    try:
        if status != "ok":
            return {"kind": kind, "name": name, "status": status, "results": {}}
        res = {}
        for p in props:
            r = analyse_quiet(p, d)
            res[p] = {"code": r["code"], "rules": sorted({v[0] for v in r["violations"]}), "error": r.get("error"), "viol": [list(v) for v in r["violations"]][:4]}
        return {"kind": kind, "name": name, "status": "ok", "results": res, "expected": expected}
    finally:
        shutil.rmtree(d, ignore_errors=True)


def run_selftest(prop=None, root="/repo", jobs=None, verbose=False):
    """prop=None: the whole catalogue against every property it names (mutants) / all properties (benign)."""
    import multiprocessing as mp

    tasks = []
    for name, exp, edits in MUTANTS:
        props = [p for p in exp if prop is None or p == prop]
        if props:
            tasks.append(("mutant", name, exp, edits, props, root))
    for name, edits in BENIGN:
        tasks.append(("benign", name, {}, edits, [prop] if prop else ALL_PROPS, root))
    jobs = jobs or min(16, os.cpu_count() or 4)
    ctx = mp.get_context("fork")
    with ctx.Pool(jobs) as pool:
        results = pool.map(_run_variant, tasks, chunksize=1)
    failed, killed, silent, inapp = [], 0, 0, []
    per_rule = {}
    for r in results:
        if r["status"] != "ok":
            inapp.append(f"{r['kind']}:{r['name']}: {r['status']}")
            continue
        if r["kind"] == "mutant":
            for p, got in r["results"].items():
                want = r["expected"][p]
                hit = got["code"] == 1 and any(x == want or x.startswith(want) for x in got["rules"])
                d = per_rule.setdefault(want, {"mutants": 0, "killed": 0})
                d["mutants"] += 1
                if hit:
                    killed += 1
                    d["killed"] += 1
                else:
                    failed.append(f"MISSED mutant {r['name']} for {p}: expected {want}, got code {got['code']} rules {got['rules']} {got['error'] or ''}")
        else:
            for p, got in r["results"].items():
                if got["code"] == 0:
                    silent += 1
                else:
                    failed.append(f"FALSE ALARM on benign variant {r['name']} for {p}: code {got['code']} {got['viol']} {got['error'] or ''}")
    n_mut = sum(1 for t in tasks if t[0] == "mutant")
    n_ben = sum(1 for t in tasks if t[0] == "benign")
    summary = {
        "mutant_variants": n_mut,
        "mutant_property_pairs_killed": killed,
        "benign_variants": n_ben,
        "benign_property_pairs_silent": silent,
        "inapplicable": inapp,
        "per_rule": per_rule,
    }
    if len(inapp) > max(3, (n_mut + n_ben) // 5):
        failed.append(f"too many inapplicable self-test variants ({len(inapp)}): the catalogue no longer matches the tree")
    return {"summary": summary, "failed": failed, "results": results if verbose else None}


if __name__ == "__main__":
    import json
    import sys

    sys.path.insert(0, os.path.dirname(os.path.dirname(os.path.abspath(__file__))))
    prop = sys.argv[1] if len(sys.argv) > 1 and sys.argv[1] != "all" else None
    out = run_selftest(prop)
    print(json.dumps(out["summary"], indent=1))
    for f in out["failed"]:
        print(f)
    sys.exit(1 if out["failed"] else 0)
