"""FE3 - registration interpreter: abstractly executes module top-level statements restricted to the
registration idioms the repo uses and produces the Rule Table.  Anything it cannot resolve is listed as
*undecided*, never guessed."""
import ast

from .model import AnalysisError, norm_text

REG_API = {
    "autograd.core.defvjp": ("vjp", "defvjp"),
    "autograd.core.defvjp_argnum": ("vjp", "defvjp_argnum"),
    "autograd.core.defvjp_argnums": ("vjp", "defvjp_argnums"),
    "autograd.core.defjvp": ("jvp", "defjvp"),
    "autograd.core.defjvp_argnum": ("jvp", "defjvp_argnum"),
    "autograd.core.defjvp_argnums": ("jvp", "defjvp_argnums"),
    "autograd.core.def_linear": ("jvp", "def_linear"),
}


class RuleEntry:
    def __init__(self, prim, mode, api, argnum, spec, maker, mod, site):
        self.prim, self.mode, self.api, self.argnum = prim, mode, api, argnum
        self.spec, self.maker, self.mod, self.site = spec, maker, mod, site

    @property
    def prim_id(self):
        return self.prim.qual

    @property
    def loc(self):
        return f"{self.mod.relpath}:{self.site.lineno}"

    def key(self):
        return f"{self.mode}:{self.prim_id}:{self.argnum}"

    def __repr__(self):
        return f"<Rule {self.mode} {self.prim_id}[{self.argnum}] {self.spec} @{self.loc}>"


def clone(node, env=None):
    """Structural copy of an AST (fields only; never follows the _parent back-pointers), substituting
    loaded Names bound in env."""
    if isinstance(node, list):
        return [clone(x, env) for x in node]
    if not isinstance(node, ast.AST):
        return node
    if isinstance(node, _Foreign):
        return node
    if env and isinstance(node, ast.Name) and isinstance(node.ctx, ast.Load) and node.id in env:
        return env[node.id]
    new = type(node)()
    for f in node._fields:
        if hasattr(node, f):
            setattr(new, f, clone(getattr(node, f), env))
    for a in ("lineno", "col_offset", "end_lineno", "end_col_offset"):
        if hasattr(node, a):
            setattr(new, a, getattr(node, a))
    return new


def subst(expr, env):
    if not env or isinstance(expr, _Foreign):
        return expr
    return clone(expr, env)


class RuleTable:
    def __init__(self, repo, both_version_branches=False):
        self.repo = repo
        self.both = both_version_branches
        self.entries = []  # RuleEntry
        self.notrace = {}  # node-type qual -> list[(ref, mod, site)]
        self.box_reg = []  # (box class qual, value type text, value type ref, mod, site)
        self.vspace_reg = []  # (vspace class qual, value type text, ref, maker expr|None, mod, site)
        self.setattrs = []  # (class qual, attr name, target ref, mod, site)
        self.undecided = []  # (mod, site, reason)
        self.sites = 0
        self._depth = 0
        self._in_loop = 0
        for m in repo.mods.values():
            self._run_body(m, m.tree.body, {})

    # ---- statement walk
    def _run_body(self, m, body, env):
        for st in body:
            if isinstance(st, ast.Assign):
                # X = helper(...) / A, B = (helper(n) for n in (...)): a helper that registers as a side effect
                from .model import static_sequence

                vals = static_sequence(st.value) if isinstance(st.value, (ast.Tuple, ast.List, ast.GeneratorExp, ast.ListComp)) or (isinstance(st.value, ast.Call) and isinstance(st.value.func, ast.Name) and st.value.func.id in ("tuple", "list", "map")) else [st.value]
                for v_ in vals or []:
                    if isinstance(v_, ast.Call) and isinstance(v_.func, (ast.Name, ast.Attribute)):
                        fr_ = self.repo.resolve_expr(m, v_.func)
                        if fr_ is not None and fr_.kind == "repo" and getattr(fr_, "okind", None) == "def" and isinstance(fr_.node, ast.FunctionDef) and not fr_.node.decorator_list and _contains_reg_call(fr_.node):
                            self._call(m, v_, env)
            if isinstance(st, ast.Expr) and isinstance(st.value, ast.Call):
                self._call(m, st.value, env)
            elif isinstance(st, ast.Assign) and (self._depth > 0 or self._in_loop > 0) and len(st.targets) == 1 and isinstance(st.targets[0], ast.Name):
                # a local of a registration helper / a name rebound in each iteration of a module-level loop
                env[st.targets[0].id] = subst(st.value, env)
            elif isinstance(st, ast.Assign) and (self._depth > 0 or self._in_loop > 0) and len(st.targets) == 1 and isinstance(st.targets[0], (ast.Tuple, ast.List)) and all(isinstance(e, ast.Name) for e in st.targets[0].elts):
                v = subst(st.value, env)
                if isinstance(v, (ast.Tuple, ast.List)) and len(v.elts) == len(st.targets[0].elts):
                    for te, ve in zip(st.targets[0].elts, v.elts):
                        env[te.id] = ve
                elif not isinstance(v, _Foreign):
                    # a, b = factory(...): component i of the call's result
                    for i, te in enumerate(st.targets[0].elts):
                        env[te.id] = ast.Subscript(value=v, slice=ast.Constant(value=i), ctx=ast.Load())
            elif isinstance(st, ast.If):
                from .model import static_module_cond

                v = static_module_cond(m, st.test, env if (self._depth > 0 or self._in_loop > 0) else None)
                if v is None or (self.both and _mentions_version(st.test)):
                    if v is None and not _mentions_version(st.test):
                        # an unknown top-level condition: analyse both arms
                        pass
                    self._run_body(m, st.body, env)
                    self._run_body(m, st.orelse, env)
                elif v:
                    self._run_body(m, st.body, env)
                else:
                    self._run_body(m, st.orelse, env)
            elif isinstance(st, ast.For):
                elts = self._literal_elts(m, st.iter, env)
                if elts is None:
                    if _contains_reg_call(st):
                        self.undecided.append((m, st, "loop over non-literal iterable"))
                    continue
                for e in elts:
                    env2 = dict(env)
                    if not _bind_loop_target(st.target, e, env2):
                        if _contains_reg_call(st):
                            self.undecided.append((m, st, "loop target cannot be bound to the literal element"))
                        break
                    self._in_loop += 1
                    try:
                        self._run_body(m, st.body, env2)
                    finally:
                        self._in_loop -= 1
            elif isinstance(st, ast.Try):
                self._run_body(m, st.body, env)
            elif isinstance(st, ast.With):
                self._run_body(m, st.body, env)
            elif isinstance(st, ast.Assign) and len(st.targets) == 1 and isinstance(st.targets[0], ast.Attribute):
                # Cls.name = target   (same effect as setattr(Cls, "name", target))
                t = st.targets[0]
                cls = self._resolve(m, t.value, env)
                if cls is not None and cls.kind == "repo" and cls.okind == "class" and not isinstance(st.value, ast.Constant):
                    self.sites += 1
                    tgt = self._resolve(m, st.value, env)
                    self.setattrs.append((cls.qual, t.attr, tgt, m, st, subst(st.value, env)))
                    if tgt is None:
                        self.undecided.append((m, st, f"attribute assignment target for {t.attr} unresolved"))

    def _eval_version_cond(self, m, test):
        """Concrete value of a NumpyVersion / __version__ comparison under the installed numpy."""
        if not _mentions_version(test):
            return None
        np = self.repo.env.np
        try:
            if isinstance(test, ast.Compare) and len(test.ops) == 1 and isinstance(test.comparators[0], ast.Constant):
                rhs = test.comparators[0].value
                lhs_node = test.left
                if isinstance(lhs_node, ast.Call):  # NumpyVersion(np.__version__)
                    lhs = np.lib.NumpyVersion(np.__version__)
                else:
                    lhs = np.__version__
                op = test.ops[0]
                if isinstance(op, ast.Lt):
                    return lhs < rhs
                if isinstance(op, ast.LtE):
                    return lhs <= rhs
                if isinstance(op, ast.Gt):
                    return lhs > rhs
                if isinstance(op, ast.GtE):
                    return lhs >= rhs
                if isinstance(op, ast.Eq):
                    return lhs == rhs
        except Exception:
            return None
        return None

    def _literal_elts(self, m, it, env):
        it = subst(it, env)
        if isinstance(it, (ast.List, ast.Tuple)):
            out = []
            for e_ in it.elts:
                if isinstance(e_, ast.Starred):
                    # (*A, *B, c): the elements of the starred sequences in place
                    sub_ = self._literal_elts(m, e_.value, env)
                    if sub_ is None:
                        return None
                    out.extend(sub_)
                else:
                    out.append(e_)
            return out
        if isinstance(it, ast.BinOp) and isinstance(it.op, ast.Add):
            a = self._literal_elts(m, it.left, env)
            b = self._literal_elts(m, it.right, env)
            if a is None or b is None:
                return None
            return a + b
        if isinstance(it, ast.Call) and not it.keywords and it.args:
            fr = self.repo.resolve_expr(m, it.func) if isinstance(it.func, (ast.Name, ast.Attribute)) else None
            if fr is not None and fr.qual == "itertools.chain" and not any(isinstance(a, ast.Starred) for a in it.args):
                out = []
                for a in it.args:
                    sub_ = self._literal_elts(m, a, env)
                    if sub_ is None:
                        return None
                    out.extend(sub_)
                return out
            if fr is not None and fr.qual == "builtins.enumerate" and 1 <= len(it.args) <= 2:
                sub_ = self._literal_elts(m, it.args[0], env)
                start = it.args[1].value if len(it.args) == 2 and isinstance(it.args[1], ast.Constant) and type(it.args[1].value) is int else (0 if len(it.args) == 1 else None)
                if sub_ is None or start is None:
                    return None
                out = []
                for i_, e_ in enumerate(sub_, start):
                    if isinstance(e_, _Foreign):
                        return None
                    out.append(ast.Tuple(elts=[ast.Constant(value=i_), e_], ctx=ast.Load()))
                return out
            if fr is not None and fr.qual == "builtins.zip" and len(it.args) >= 2:
                cols = [self._literal_elts(m, a, env) for a in it.args]
                if any(c_ is None or any(isinstance(x_, _Foreign) for x_ in c_) for c_ in cols):
                    return None
                return [ast.Tuple(elts=list(row), ctx=ast.Load()) for row in zip(*cols)]
            if fr is not None and fr.qual in ("builtins.list", "builtins.tuple", "builtins.sorted", "builtins.reversed") and len(it.args) == 1:
                sub_ = self._literal_elts(m, it.args[0], env)
                if sub_ is None:
                    return None
                if fr.qual == "builtins.reversed":
                    return list(reversed(sub_))
                if fr.qual == "builtins.sorted":
                    return None
                return sub_
        if isinstance(it, ast.Call) and isinstance(it.func, ast.Attribute) and it.func.attr == "split" and not it.keywords and len(it.args) <= 1 and isinstance(it.func.value, ast.Constant) and isinstance(it.func.value.value, str) and all(isinstance(a, ast.Constant) and isinstance(a.value, str) for a in it.args):
            # "a b c".split(): a table of names written as one string
            parts = it.func.value.value.split(*[a.value for a in it.args])
            return [ast.copy_location(ast.Constant(value=p_), it) for p_ in parts] if len(parts) <= 256 else None
        if isinstance(it, ast.Call) and isinstance(it.func, ast.Attribute) and it.func.attr in ("items", "keys", "values") and not it.args and not it.keywords:
            d = it.func.value
            dm = m
            if isinstance(d, (ast.Name, ast.Attribute)):
                r = self.repo.resolve_expr(m, d)
                if r is not None and r.kind == "repo" and r.okind == "assign":
                    dname = d.id if isinstance(d, ast.Name) else None
                    d, dm = r.node, r.mod
                    if isinstance(d, ast.Dict) and dname is not None and dm is m:
                        # module-level growth of the table before it is iterated: TABLE.update(<pairs>) / TABLE[k] = v
                        d = self._with_module_updates(m, dname, d, env)
                        if d is None:
                            return None
            if isinstance(d, ast.Call) and not d.keywords and not any(isinstance(a_, ast.Starred) for a_ in d.args):
                # factory(a, b).items(): a module-level function whose only statement of substance is `return {..}`
                dv = subst(d, env)
                fr_ = self.repo.resolve_expr(m, dv.func) if isinstance(dv, ast.Call) and isinstance(dv.func, (ast.Name, ast.Attribute)) else None
                if fr_ is not None and fr_.kind == "repo" and fr_.okind == "def" and fr_.mod is m and isinstance(fr_.node, ast.FunctionDef) and not fr_.node.decorator_list:
                    fa = fr_.node.args
                    fparams = [p_.arg for p_ in fa.posonlyargs + fa.args]
                    body_ = [s_ for s_ in fr_.node.body if not (isinstance(s_, ast.Expr) and isinstance(s_.value, ast.Constant))]
                    if not fa.vararg and not fa.kwarg and not fa.kwonlyargs and len(dv.args) == len(fparams) and len(body_) == 1 and isinstance(body_[0], ast.Return) and isinstance(body_[0].value, ast.Dict):
                        d = subst(body_[0].value, dict(zip(fparams, dv.args)))
            if isinstance(d, ast.DictComp) and len(d.generators) == 1 and not d.generators[0].ifs and dm is m:
                # {key(x): value(x) for x in <literal>}: the display with one entry per element
                g_ = d.generators[0]
                src_ = self._literal_elts(dm, g_.iter, env)
                if src_ is not None and len(src_) <= 64 and not any(isinstance(e_, _Foreign) for e_ in src_):
                    ks, vs = [], []
                    okc = True
                    for e_ in src_:
                        env2 = dict(env)
                        if not _bind_loop_target(g_.target, e_, env2):
                            okc = False
                            break
                        ks.append(subst(d.key, env2))
                        vs.append(subst(d.value, env2))
                    if okc:
                        d = ast.Dict(keys=ks, values=vs)
            if isinstance(d, ast.Dict) and all(k is not None for k in d.keys):
                if it.func.attr == "items":
                    out = [ast.Tuple(elts=[k, v], ctx=ast.Load()) for k, v in zip(d.keys, d.values)]
                elif it.func.attr == "keys":
                    out = list(d.keys)
                else:
                    out = list(d.values)
                return [_Foreign(dm, e) for e in out] if dm is not m else out
            return None
        if isinstance(it, ast.Dict) and all(k is not None for k in it.keys):
            return list(it.keys)
        if isinstance(it, (ast.Name, ast.Attribute)):
            r = self.repo.resolve_expr(m, it)
            if r is not None and r.kind == "repo" and r.okind == "assign" and isinstance(r.node, ast.Dict) and all(k is not None for k in r.node.keys):
                return [_Foreign(r.mod, e) for e in r.node.keys] if r.mod is not m else list(r.node.keys)
            if r is not None and r.kind == "repo" and r.okind == "assign" and isinstance(r.node, (ast.List, ast.Tuple)):
                if r.mod is not m:
                    # elements must be resolved in their defining module: wrap as (mod, expr)
                    return [_Foreign(r.mod, e) for e in r.node.elts]
                return list(r.node.elts)
        return None

    def _with_module_updates(self, m, name, disp, env):
        """the dict display bound to `name` at module level together with the entries later module-level statements
        add to it (NAME.update(pairs / display / k=v), NAME[k] = v); None when a mutation cannot be interpreted (the
        table is then undecided - never silently partial)"""
        keys, vals = list(disp.keys), list(disp.values)
        for st in m.tree.body:
            muts = [x for x in ast.walk(st) if (isinstance(x, ast.Call) and isinstance(x.func, ast.Attribute) and isinstance(x.func.value, ast.Name) and x.func.value.id == name and x.func.attr in ("update", "setdefault", "pop", "popitem", "clear", "__setitem__")) or (isinstance(x, (ast.Assign, ast.AugAssign, ast.Delete)) and any(isinstance(t_, ast.Subscript) and isinstance(t_.value, ast.Name) and t_.value.id == name for t_ in (x.targets if isinstance(x, (ast.Assign, ast.Delete)) else [x.target])))]
            if not muts:
                continue
            if isinstance(st, (ast.FunctionDef, ast.AsyncFunctionDef, ast.ClassDef)):
                continue  # (a function that mutates the table when CALLED: not module-level growth)
            if len(muts) != 1:
                return None
            x = muts[0]
            if isinstance(st, ast.Assign) and x is st and len(st.targets) == 1:
                keys.append(st.targets[0].slice)
                vals.append(st.value)
                continue
            if isinstance(st, ast.Expr) and st.value is x and x.func.attr == "update" and len(x.args) <= 1:
                if x.args:
                    a0 = x.args[0]
                    if isinstance(a0, ast.Dict) and all(k is not None for k in a0.keys):
                        keys.extend(a0.keys)
                        vals.extend(a0.values)
                    elif isinstance(a0, (ast.GeneratorExp, ast.ListComp)) and len(a0.generators) == 1 and not a0.generators[0].ifs and isinstance(a0.elt, ast.Tuple) and len(a0.elt.elts) == 2:
                        g_ = a0.generators[0]
                        src_ = self._literal_elts(m, g_.iter, env)
                        if src_ is None or any(isinstance(e_, _Foreign) for e_ in src_):
                            return None
                        for e_ in src_:
                            env2 = dict(env)
                            if not _bind_loop_target(g_.target, e_, env2):
                                return None
                            keys.append(subst(a0.elt.elts[0], env2))
                            vals.append(subst(a0.elt.elts[1], env2))
                    elif isinstance(a0, (ast.List, ast.Tuple)) and all(isinstance(e_, ast.Tuple) and len(e_.elts) == 2 for e_ in a0.elts):
                        for e_ in a0.elts:
                            keys.append(e_.elts[0])
                            vals.append(e_.elts[1])
                    else:
                        return None
                for k_ in x.keywords:
                    if k_.arg is None:
                        return None
                    keys.append(ast.Constant(value=k_.arg))
                    vals.append(k_.value)
                continue
            return None
        return ast.Dict(keys=keys, values=vals)

    def _synth_class(self, m, e):
        """the class object built by type(<name>, (<bases>,), {<constant attribute names>: values}): a synthetic class
        definition bound under that name in the module (the usual convention NAME = type("NAME", ...))"""
        if isinstance(e, _Foreign):
            m, e = e.mod, e.expr
        if not (isinstance(e, ast.Call) and len(e.args) == 3 and not e.keywords):
            return None
        fr = self.repo.resolve_expr(m, e.func)
        if fr is None or fr.qual not in ("builtins.type",) and not fr.qual.endswith(".type_"):
            return None
        name = _const_fold_str(e.args[0])
        if not (isinstance(name, ast.Constant) and isinstance(name.value, str) and name.value.isidentifier()):
            return None
        bases, ns = e.args[1], e.args[2]
        if not isinstance(bases, (ast.Tuple, ast.List)) or not isinstance(ns, ast.Dict) or not all(isinstance(k, ast.Constant) and isinstance(k.value, str) for k in ns.keys):
            return None
        key = ("synth", m.name, name.value)
        cache = self.__dict__.setdefault("_synth", {})
        if key not in cache:
            body = [ast.Assign(targets=[ast.Name(id=k.value, ctx=ast.Store())], value=getattr(v, "expr", v)) for k, v in zip(ns.keys, ns.values)] or [ast.Pass()]
            node = ast.ClassDef(name=name.value, bases=list(bases.elts), keywords=[], body=body, decorator_list=[])
            try:
                node.type_params = []
            except Exception:
                pass
            ast.copy_location(node, e)
            ast.fix_missing_locations(node)
            node._parent = m.tree
            for ch in ast.walk(node):
                for c2 in ast.iter_child_nodes(ch):
                    if not hasattr(c2, "_parent"):
                        c2._parent = ch
            m._bind(name.value, ("class", node, node))
            cache[key] = node
        return self.repo.resolve(m, name.value)

    def _resolve(self, m, e, env):
        if isinstance(e, _Foreign):
            return self.repo.resolve_expr(e.mod, e.expr)
        e = subst(e, env)
        if isinstance(e, _Foreign):
            return self.repo.resolve_expr(e.mod, e.expr)
        return self.repo.resolve_expr(m, e)

    # ---- one call at module top level
    def _call(self, m, c, env):
        f = c.func
        if any(k.arg is None for k in c.keywords):
            # f(.., **options) with options bound to a dict display with constant keys: the keywords themselves
            kws, okk = [], True
            for k in c.keywords:
                if k.arg is not None:
                    kws.append(k)
                    continue
                dv = subst(k.value, env)
                if isinstance(dv, ast.Dict) and all(isinstance(kk, ast.Constant) and isinstance(kk.value, str) for kk in dv.keys):
                    kws.extend(ast.keyword(arg=kk.value, value=vv) for kk, vv in zip(dv.keys, dv.values))
                else:
                    okk = False
            if okk:
                c2 = ast.Call(func=c.func, args=list(c.args), keywords=kws)
                ast.copy_location(c2, c)
                ast.fix_missing_locations(c2)
                c2._parent = getattr(c, "_parent", None)
                return self._call(m, c2, env)
        if isinstance(f, ast.Name) and f.id not in env:
            # NAME = functools.partial(F, a, .., k=v) bound once at module level: NAME(x, ..) is F(a, .., x, .., k=v)
            bl = m.top.get(f.id)
            if bl and len(bl) == 1 and bl[-1][0] == "assign" and isinstance(bl[-1][1], ast.Call):
                pc = bl[-1][1]
                pr = self.repo.resolve_expr(m, pc.func)
                if pr is not None and pr.qual == "functools.partial" and pc.args and not any(isinstance(a, ast.Starred) for a in pc.args) and all(k.arg is not None for k in pc.keywords):
                    c2 = ast.Call(func=pc.args[0], args=list(pc.args[1:]) + list(c.args), keywords=list(pc.keywords) + list(c.keywords))
                    ast.copy_location(c2, c)
                    ast.fix_missing_locations(c2)
                    c2._parent = getattr(c, "_parent", None)
                    return self._call(m, c2, env)
        fref = self.repo.resolve_expr(m, f)
        if fref is not None and fref.qual in REG_API:
            self.sites += 1
            mode, api = REG_API[fref.qual]
            self._reg(m, c, env, mode, api)
            return
        if fref is not None and fref.qual == "autograd.tracer.register_notrace" and len(c.args) == 2:
            self.sites += 1
            t = self._resolve(m, c.args[0], env)
            p = self._resolve(m, c.args[1], env)
            if t is None or p is None:
                self.undecided.append((m, c, "register_notrace with unresolved operand"))
                return
            self.notrace.setdefault(t.qual, []).append((p, m, c))
            return
        if isinstance(f, ast.Attribute) and f.attr == "register":
            cls = self._resolve(m, f.value, env)
            if cls is None:
                cls = self._synth_class(m, subst(f.value, env))
            if cls is not None and cls.kind == "repo" and cls.okind == "class":
                mro = class_mro(self.repo, cls)
                quals = [k.qual for k in mro]
                arg0 = subst(c.args[0], env) if c.args else None
                if isinstance(arg0, _Foreign):
                    arg0 = arg0.expr
                tref = self._resolve(m, c.args[0], env) if c.args else None
                if tref is not None and tref.kind == "classattr" and isinstance(tref.node, ast.expr):
                    # Cls.register(Cls.seq_type): the registered type is the value of the class attribute
                    inner_ = self.repo.resolve_expr(tref.mod, tref.node)
                    if inner_ is not None:
                        tref = inner_
                        arg0 = tref.node if False else arg0
                if "autograd.tracer.Box" in quals:
                    self.sites += 1
                    self.box_reg.append((cls.qual, norm_text(arg0), tref, m, c))
                    return
                if "autograd.core.VSpace" in quals:
                    self.sites += 1
                    maker = c.args[1] if len(c.args) > 1 else next((k.value for k in c.keywords if k.arg == "vspace_maker"), None)
                    if maker is not None and env:
                        maker = getattr(subst(maker, env), "expr", subst(maker, env))
                    self.vspace_reg.append((cls.qual, norm_text(arg0), tref, maker, m, c))
                    return
        if fref is not None and fref.kind == "repo" and fref.okind == "def" and isinstance(fref.node, ast.FunctionDef) and not fref.node.decorator_list:
            # a module-level helper that performs registrations: interpret its body with the parameters bound
            fn = fref.node
            if _contains_reg_call(fn) and self._depth < 3:
                a = fn.args
                params = [p.arg for p in a.posonlyargs + a.args]
                cargs = []
                for x in c.args:
                    if isinstance(x, ast.Starred):
                        # helper(*row) with row a literal tuple (a row of a registration table): its elements
                        xv = subst(x.value, env)
                        xv = xv.expr if isinstance(xv, _Foreign) and xv.mod is m else xv
                        if isinstance(xv, (ast.Tuple, ast.List)) and not any(isinstance(e_, ast.Starred) for e_ in xv.elts):
                            cargs.extend(xv.elts)
                        else:
                            cargs.append(x)
                    else:
                        cargs.append(x)
                if a.vararg or a.kwonlyargs or len(cargs) > len(params) or any(isinstance(x, ast.Starred) for x in cargs):
                    self.undecided.append((m, c, f"registration helper {fref.qual} called with an unsupported signature"))
                    return
                env2 = {}
                ok = True
                for p_, x in zip(params, cargs):
                    v = subst(x, env)
                    env2[p_] = v if (fref.mod is m or isinstance(v, _Foreign)) else _Foreign(m, v)
                extra_k, extra_v = [], []
                for k in c.keywords:
                    if k.arg in params:
                        v = subst(k.value, env)
                        env2[k.arg] = v if (fref.mod is m or isinstance(v, _Foreign)) else _Foreign(m, v)
                    elif k.arg is not None and a.kwarg is not None and fref.mod is m:
                        extra_k.append(ast.Constant(value=k.arg))
                        extra_v.append(subst(k.value, env))
                    else:
                        ok = False
                if a.kwarg is not None:
                    # **options of the helper: the keywords it was called with, as a dict display
                    env2[a.kwarg.arg] = ast.Dict(keys=extra_k, values=extra_v)
                defaults = dict(zip(params[len(params) - len(a.defaults):], a.defaults))
                for p_ in params:
                    if p_ not in env2:
                        if p_ in defaults:
                            env2[p_] = defaults[p_]
                        else:
                            ok = False
                if not ok:
                    self.undecided.append((m, c, f"registration helper {fref.qual}: arguments not bound"))
                    return
                self._depth += 1
                try:
                    self._run_body(fref.mod, fn.body, env2)
                finally:
                    self._depth -= 1
            return
        if fref is not None and fref.qual == "builtins.setattr" and len(c.args) == 3:
            cls = self._resolve(m, c.args[0], env)
            name = _const_fold_str(subst(c.args[1], env))
            if cls is not None and isinstance(name, ast.Constant) and isinstance(name.value, str):
                self.sites += 1
                tgt = self._resolve(m, c.args[2], env)
                vexpr = subst(c.args[2], env)
                self.setattrs.append((cls.qual, name.value, tgt, m, c, vexpr))
                if tgt is None and not isinstance(vexpr, (ast.Call, ast.Subscript, ast.Lambda)):
                    self.undecided.append((m, c, f"setattr target for {name.value} unresolved"))

    def _expand_starred(self, m, v, env):
        """*(<elt> for x in range(3)) / *[<elt> for x in (a, b)] / *(a, b): the makers, with the loop variable
        substituted; None when the sequence is not a literal"""
        v = subst(v, env)
        if isinstance(v, _Foreign):
            return None
        if isinstance(v, (ast.Tuple, ast.List)):
            return None if any(isinstance(e, ast.Starred) for e in v.elts) else list(v.elts)
        if isinstance(v, (ast.Name, ast.Attribute)):
            # *RULES with RULES = (maker0, maker1) bound once at module level
            r = self.repo.resolve_expr(m, v)
            if r is not None and r.kind == "repo" and r.okind == "assign" and r.mod is m and isinstance(r.node, (ast.Tuple, ast.List)) and not any(isinstance(e, ast.Starred) for e in r.node.elts):
                return list(r.node.elts)
            return None
        if isinstance(v, ast.Call) and len(v.args) == 1 and not v.keywords and isinstance(v.args[0], (ast.GeneratorExp, ast.ListComp, ast.Tuple, ast.List)):
            # *tuple(<comprehension>) / *list(...): the elements of the inner sequence
            fr0 = self._resolve(m, v.func, env)
            if fr0 is not None and fr0.qual in ("builtins.tuple", "builtins.list"):
                return self._expand_starred(m, v.args[0], env)
        if isinstance(v, ast.Call) and not any(isinstance(a, ast.Starred) for a in v.args):
            # *factory(...): a module-level function every return of which is a tuple display of the same length n
            # contributes factory(...)[0] .. factory(...)[n-1]
            fr = self._resolve(m, v.func, env)
            if fr is not None and fr.kind == "repo" and fr.okind == "def" and isinstance(fr.node, ast.FunctionDef) and not fr.node.decorator_list:
                rets = [x for x in ast.walk(fr.node) if isinstance(x, ast.Return) and _owner_def(x, fr.node)]
                lens = {len(x.value.elts) if isinstance(x.value, (ast.Tuple, ast.List)) and not any(isinstance(e_, ast.Starred) for e_ in x.value.elts) else None for x in rets}
                if len(lens) == 1 and None not in lens:
                    k = lens.pop()
                    if 0 < k <= 16:
                        out = []
                        for i in range(k):
                            sub_ = ast.Subscript(value=v, slice=ast.Constant(value=i), ctx=ast.Load())
                            ast.copy_location(sub_, v)
                            ast.fix_missing_locations(sub_)
                            out.append(sub_)
                        return out
            return None
        if isinstance(v, ast.BinOp) and isinstance(v.op, ast.Mult):
            # *(("same",) * 2): repetition of a literal sequence by a constant
            seq, k = (v.left, v.right) if isinstance(v.left, (ast.Tuple, ast.List)) else (v.right, v.left)
            if isinstance(seq, (ast.Tuple, ast.List)) and isinstance(k, ast.Constant) and type(k.value) is int and 0 <= k.value <= 16 and not any(isinstance(e, ast.Starred) for e in seq.elts):
                return list(seq.elts) * k.value
            return None
        if isinstance(v, ast.BinOp) and isinstance(v.op, ast.Add):
            a_, b_ = self._expand_starred(m, v.left, env), self._expand_starred(m, v.right, env)
            return None if a_ is None or b_ is None else a_ + b_
        if isinstance(v, (ast.GeneratorExp, ast.ListComp)) and len(v.generators) == 1 and not v.generators[0].ifs and isinstance(v.generators[0].target, ast.Name):
            g = v.generators[0]
            it = g.iter
            elts = None
            if isinstance(it, ast.Call) and isinstance(it.func, ast.Name) and it.func.id == "range" and not it.keywords and 1 <= len(it.args) <= 3 and all(isinstance(a, ast.Constant) and type(a.value) is int for a in it.args):
                elts = [ast.Constant(value=k) for k in range(*[a.value for a in it.args])]
            else:
                elts = self._literal_elts(m, it, env)
            if elts is None or len(elts) > 32:
                return None
            out = []
            for e in elts:
                env2 = dict(env)
                env2[g.target.id] = e
                out.append(subst(v.elt, env2))
            return out
        return None

    def _reg(self, m, c, env, mode, api):
        if not c.args:
            self.undecided.append((m, c, "registration without primitive"))
            return
        prim = self._resolve(m, c.args[0], env)
        if prim is None:
            self.undecided.append((m, c, f"unresolved primitive {norm_text(c.args[0])}"))
            return
        if api == "def_linear":
            self.entries.append(RuleEntry(prim, "jvp", api, None, "linear", None, m, c))
            return
        if api in ("defvjp_argnum", "defvjp_argnums", "defjvp_argnum", "defjvp_argnums"):
            if len(c.args) != 2:
                self.undecided.append((m, c, f"{api} with {len(c.args)} args"))
                return
            self.entries.append(RuleEntry(prim, mode, api, None, "maker", subst(c.args[1], env), m, c))
            return
        argnums = None
        for kw in c.keywords:
            if kw.arg == "argnums":
                kv = subst(kw.value, env)
                if isinstance(kv, _Foreign):
                    kv = kv.expr
                if isinstance(kv, (ast.Name, ast.Attribute)):
                    rr = self.repo.resolve_expr(m, kv)
                    if rr is not None and rr.kind == "repo" and rr.okind == "assign" and isinstance(rr.node, (ast.Tuple, ast.List)) and len(rr.mod.top.get(rr.name, [])) == 1:
                        kv = rr.node  # argnums=_SOME_MODULE_CONSTANT
                try:
                    argnums = list(ast.literal_eval(kv))
                except Exception:
                    self.undecided.append((m, c, "non-literal argnums="))
                    return
            elif kw.arg is None:
                self.undecided.append((m, c, "**kwargs in registration"))
                return
        makers = []
        for a in c.args[1:]:
            if isinstance(a, ast.Starred):
                ex = self._expand_starred(m, a.value, env)
                if ex is None:
                    self.undecided.append((m, c, "starred makers"))
                    return
                makers.extend(ex)
            else:
                makers.append(a)
        if argnums is None:
            argnums = list(range(len(makers)))
        self._arity_note = None
        if len(makers) > len(argnums):
            # zip() silently drops the surplus makers: recorded, decided by A1.arity
            pass
        for i, mk in enumerate(makers):
            an = argnums[i] if i < len(argnums) else ("dropped", i)
            mk = subst(mk, env)
            if isinstance(mk, (ast.Name, ast.Attribute)):
                # SAME = "same" / NO_RULE = None bound once at module level
                rk = self.repo.resolve_expr(m, mk)
                if rk is not None and rk.kind == "repo" and rk.okind == "assign" and isinstance(rk.node, ast.Constant):
                    mk = rk.node
            if isinstance(mk, ast.Constant) and mk.value is None:
                spec = "none"
            elif isinstance(mk, ast.Constant) and mk.value == "same":
                spec = "same"
            elif isinstance(mk, ast.Constant):
                spec = f"bad:{mk.value!r}"
            else:
                spec = "maker"
            self.entries.append(RuleEntry(prim, mode, api, an, spec, mk if spec == "maker" else None, m, c))
        if not makers:
            self.entries.append(RuleEntry(prim, mode, api, ("empty", 0), "empty", None, m, c))

    # ---- lookups
    def by_prim(self, mode):
        d = {}
        for e in self.entries:
            if e.mode == mode:
                d.setdefault(e.prim_id, []).append(e)
        return d

    def lookup(self, mode, prim_id, argnum):
        """Last registration wins (dict assignment semantics of primitive_vjps[fun] = ...)."""
        last_site = None
        res = None
        for e in self.entries:
            if e.mode == mode and e.prim_id == prim_id:
                if e.site is not last_site:
                    # a later registration call replaces the whole table entry of the primitive
                    last_site = e.site
                    res = None
                if e.argnum is None or e.argnum == argnum:
                    res = e
        return res

    def notrace_quals(self, node_type_qual):
        return {r.qual for r, _, _ in self.notrace.get(node_type_qual, [])}


class _Foreign(ast.AST):
    """An expression that must be resolved in another module (loop over an imported literal list)."""

    _fields = ()

    def __init__(self, mod, expr):
        super().__init__()
        self.mod, self.expr = mod, expr

    def __deepcopy__(self, memo):
        return self


def _bind_loop_target(tgt, e, env):
    """bind the target of a module-level `for` to one literal element (names, or a tuple of names against a
    tuple/list literal element)"""
    if isinstance(tgt, ast.Name):
        env[tgt.id] = e
        return True
    if isinstance(tgt, (ast.Tuple, ast.List)):
        mod_ = None
        x = e
        if isinstance(e, _Foreign):
            mod_, x = e.mod, e.expr
        if isinstance(x, (ast.Tuple, ast.List)) and len(x.elts) == len(tgt.elts):
            for te, ve in zip(tgt.elts, x.elts):
                if not _bind_loop_target(te, _Foreign(mod_, ve) if mod_ is not None else ve, env):
                    return False
            return True
    return False


def _const_fold_str(e):
    """fold "__%s__" % "add", "__" + s + "__", f"__{s}__", "__{}__".format(s) over string constants"""
    if isinstance(e, _Foreign):
        e = e.expr
    if isinstance(e, ast.Constant):
        return e
    try:
        if isinstance(e, ast.BinOp) and isinstance(e.op, ast.Mod):
            l, r = _const_fold_str(e.left), e.right
            if isinstance(l, ast.Constant) and isinstance(l.value, str):
                if isinstance(r, ast.Tuple):
                    vals = [_const_fold_str(x) for x in r.elts]
                    if all(isinstance(v, ast.Constant) for v in vals):
                        return ast.Constant(value=l.value % tuple(v.value for v in vals))
                else:
                    r = _const_fold_str(r)
                    if isinstance(r, ast.Constant):
                        return ast.Constant(value=l.value % r.value)
        if isinstance(e, ast.BinOp) and isinstance(e.op, ast.Add):
            l, r = _const_fold_str(e.left), _const_fold_str(e.right)
            if isinstance(l, ast.Constant) and isinstance(r, ast.Constant) and isinstance(l.value, str) and isinstance(r.value, str):
                return ast.Constant(value=l.value + r.value)
        if isinstance(e, ast.JoinedStr):
            parts = []
            for v in e.values:
                if isinstance(v, ast.Constant):
                    parts.append(str(v.value))
                elif isinstance(v, ast.FormattedValue) and v.conversion == -1 and v.format_spec is None:
                    c = _const_fold_str(v.value)
                    if not isinstance(c, ast.Constant):
                        return e
                    parts.append(str(c.value))
                else:
                    return e
            return ast.Constant(value="".join(parts))
        if isinstance(e, ast.Call) and isinstance(e.func, ast.Attribute) and e.func.attr == "format" and not e.keywords:
            base = _const_fold_str(e.func.value)
            args = [_const_fold_str(a) for a in e.args]
            if isinstance(base, ast.Constant) and isinstance(base.value, str) and all(isinstance(a, ast.Constant) for a in args):
                return ast.Constant(value=base.value.format(*[a.value for a in args]))
    except Exception:
        return e
    return e


def _owner_def(node, fn):
    """is `fn` the innermost function definition around `node`?"""
    p = getattr(node, "_parent", None)
    while p is not None and not isinstance(p, (ast.FunctionDef, ast.AsyncFunctionDef, ast.Lambda)):
        p = getattr(p, "_parent", None)
    return p is fn


def _mentions_version(test):
    for n in ast.walk(test):
        if isinstance(n, ast.Attribute) and n.attr in ("NumpyVersion", "__version__"):
            return True
    return False


def _contains_reg_call(st):
    for n in ast.walk(st):
        if isinstance(n, ast.Call):
            f = n.func
            name = f.id if isinstance(f, ast.Name) else (f.attr if isinstance(f, ast.Attribute) else "")
            if name.startswith("def") or name in ("register", "register_notrace", "setattr"):
                return True
    return False


def class_mro(repo, cls_ref, _depth=0):
    """Linearised ancestors of a repo class (simple DFS; the repo has no diamonds)."""
    out = [cls_ref]
    if _depth > 10:
        return out
    for b in cls_ref.node.bases:
        r = repo.resolve_expr(cls_ref.mod, b)
        if r is not None and r.kind == "repo" and r.okind == "class":
            for k in class_mro(repo, r, _depth + 1):
                if all(k.qual != o.qual for o in out):
                    out.append(k)
        elif r is not None:
            out.append(r)
    return out


def class_lookup(repo, cls_ref, attr):
    """Resolve attribute `attr` through the MRO: returns (defining class ref, node) or (None, None)."""
    for k in class_mro(repo, cls_ref):
        if k.kind != "repo":
            continue
        for st in k.node.body:
            if isinstance(st, ast.FunctionDef) and st.name == attr:
                return k, st
            if isinstance(st, ast.Assign):
                for t in st.targets:
                    if isinstance(t, ast.Name) and t.id == attr:
                        return k, st.value
    return None, None
