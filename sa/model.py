"""FE1 - module model of /repo/autograd: parse, import/alias resolution, top-level bindings.

Nothing here imports or executes autograd.  Only `ast` over the working tree.
"""
import ast
import hashlib
import os

PRIMITIVE_CTORS = {
    "autograd.tracer.primitive",
    "autograd.core.primitive_with_deprecation_warnings",
    "autograd.core.primitive",
    "autograd.core.primitive_",
    "autograd.extend.primitive",
}
NOTRACE_CTORS = {"autograd.tracer.notrace_primitive", "autograd.extend.notrace_primitive"}


class AnalysisError(Exception):
    """The analysis itself cannot proceed (anchor vanished, floor missed): exit 2, never a VIOLATION."""


def _mentions_version(test):
    for n in ast.walk(test):
        if isinstance(n, ast.Attribute) and n.attr in ("NumpyVersion", "__version__"):
            return True
    return False


class _Subst(ast.NodeTransformer):
    def __init__(self, env):
        self.env = env

    def visit_Name(self, n):
        if isinstance(n.ctx, ast.Load) and n.id in self.env:
            return self.env[n.id]
        return n


def _bind_static(target, value, env):
    if isinstance(target, ast.Name):
        env[target.id] = value
        return True
    if isinstance(target, (ast.Tuple, ast.List)) and isinstance(value, (ast.Tuple, ast.List)) and len(target.elts) == len(value.elts):
        return all(_bind_static(t, v, env) for t, v in zip(target.elts, value.elts))
    return False


def static_sequence(value, depth=0):
    """element expressions of a module-level sequence written as a literal, as map(F, <literal>), or as a generator /
    list comprehension over a literal without filters (the element expression with the loop names substituted)"""
    import copy

    if depth > 3:
        return None
    if isinstance(value, (ast.Tuple, ast.List)):
        return None if any(isinstance(e, ast.Starred) for e in value.elts) else list(value.elts)
    if isinstance(value, ast.Call) and isinstance(value.func, ast.Name) and not value.keywords:
        if value.func.id in ("tuple", "list", "iter") and len(value.args) == 1:
            return static_sequence(value.args[0], depth + 1)
        if value.func.id == "map" and len(value.args) == 2:
            src = static_sequence(value.args[1], depth + 1)
            if src is not None:
                return [ast.copy_location(ast.Call(func=value.args[0], args=[e], keywords=[]), value) for e in src]
    if isinstance(value, (ast.GeneratorExp, ast.ListComp)) and len(value.generators) == 1 and not value.generators[0].ifs and not value.generators[0].is_async:
        g = value.generators[0]
        src = static_sequence(g.iter, depth + 1)
        if src is None or len(src) > 16:
            return None
        out = []
        for e in src:
            env = {}
            if not _bind_static(g.target, e, env):
                return None
            out.append(ast.fix_missing_locations(_Subst(env).visit(copy.deepcopy(value.elt))))
        return out
    return None


def static_module_cond(mod, test, env=None):
    """Value of a module-level condition that is fixed for the installed NumPy: a NumpyVersion / __version__
    comparison, or `NAME is (not) None` for a NAME whose live binding is known (env of a registration helper
    first, then the module-level bindings collected so far).  None when not decidable."""
    if isinstance(test, ast.Call) and isinstance(test.func, ast.Name) and test.func.id == "issubclass" and len(test.args) == 2 and not test.keywords:
        # issubclass(<literal type>, <literal type(s)>): decided on the real class hierarchy of Python / NumPy
        def cls_of(e):
            if env is not None and isinstance(e, ast.Name) and e.id in env:
                e = getattr(env[e.id], "expr", env[e.id])
            if not isinstance(e, (ast.Name, ast.Attribute)):
                return None
            r = mod.repo.resolve_expr(mod, e) if getattr(mod, "repo", None) is not None else None
            q = getattr(r, "qual", None)
            if q is None or getattr(r, "kind", None) not in ("ext", "wrapped"):
                return None
            if getattr(r, "kind", None) == "wrapped":
                q = "numpy." + r.name
            import builtins as _b, importlib

            root, _, rest = q.partition(".")
            try:
                obj = _b if root == "builtins" else importlib.import_module(root) if root in ("numpy",) else None
                for part in rest.split("."):
                    obj = getattr(obj, part)
            except Exception:
                return None
            return obj if isinstance(obj, type) else None

        a = cls_of(test.args[0])
        bs = test.args[1].elts if isinstance(test.args[1], (ast.Tuple, ast.List)) else [test.args[1]]
        b = [cls_of(x) for x in bs]
        if a is None or any(x is None for x in b):
            return None
        return issubclass(a, tuple(b))
    if isinstance(test, ast.UnaryOp) and isinstance(test.op, ast.Not):
        v = static_module_cond(mod, test.operand, env)
        return None if v is None else (not v)
    if isinstance(test, ast.BoolOp):
        vals = [static_module_cond(mod, v, env) for v in test.values]
        if isinstance(test.op, ast.And):
            return False if any(v is False for v in vals) else (True if all(v is True for v in vals) else None)
        return True if any(v is True for v in vals) else (False if all(v is False for v in vals) else None)
    if isinstance(test, ast.Compare) and len(test.ops) == 1:
        l, op, r = test.left, test.ops[0], test.comparators[0]
        if isinstance(op, (ast.Is, ast.IsNot)) and isinstance(r, ast.Constant) and r.value is None and isinstance(l, ast.Name):
            val = None
            if env is not None and l.id in env:
                val = env[l.id]
            else:
                bl = mod.top.get(l.id)
                if bl and bl[-1][0] == "assign":
                    val = bl[-1][1]
                elif bl:
                    val = bl[-1]
            if val is None:
                return None
            e = getattr(val, "expr", val)
            if isinstance(e, ast.Constant):
                is_none = e.value is None
            elif isinstance(e, (ast.Attribute, ast.Call, ast.List, ast.Tuple, ast.Dict, ast.Lambda, tuple)):
                is_none = False
            elif isinstance(e, ast.Name):
                return None
            else:
                return None
            return is_none if isinstance(op, ast.Is) else (not is_none)
        if _mentions_version(test) and isinstance(r, ast.Constant):
            np = getattr(getattr(mod.repo, "env", None), "np", None)
            if np is None:
                return None
            try:
                lhs = np.lib.NumpyVersion(np.__version__) if isinstance(l, ast.Call) else np.__version__
                rhs = r.value
                if isinstance(op, ast.Lt):
                    return bool(lhs < rhs)
                if isinstance(op, ast.LtE):
                    return bool(lhs <= rhs)
                if isinstance(op, ast.Gt):
                    return bool(lhs > rhs)
                if isinstance(op, ast.GtE):
                    return bool(lhs >= rhs)
                if isinstance(op, ast.Eq):
                    return bool(lhs == rhs)
            except Exception:
                return None
    return None


class Ref:
    kind = "?"

    def __repr__(self):
        return f"<{self.kind} {self.qual}>"


class RepoObj(Ref):
    """A top-level def / class / assignment in a repo module."""

    def __init__(self, mod, name, okind, node, stmt=None):
        self.kind = "repo"
        self.mod, self.name, self.okind, self.node, self.stmt = mod, name, okind, node, stmt
        self.qual = f"{mod.name}.{name}"


class ClassAttr(Ref):
    def __init__(self, cls_ref, attr, node):
        self.kind = "classattr"
        self.cls, self.attr, self.node = cls_ref, attr, node
        self.mod = cls_ref.mod
        self.qual = f"{cls_ref.qual}.{attr}"


class Ext(Ref):
    """Something outside the repo (numpy.sum, functools.partial, builtins.len)."""

    def __init__(self, qual):
        self.kind = "ext"
        self.qual = qual


class Wrapped(Ref):
    """An external callable as re-exported by wrap_namespace (primitive / notrace / passthrough)."""

    def __init__(self, ns, name, how):
        self.kind = "wrapped"
        self.ns, self.name, self.how = ns, name, how
        self.qual = f"{ns}.{name}"


class ModRef(Ref):
    def __init__(self, dotted, mod=None):
        self.kind = "module"
        self.qual = dotted
        self.mod = mod


class Mod:
    def __init__(self, repo, name, path):
        self.repo, self.name, self.path = repo, name, path
        with open(path, "rb") as f:
            raw = f.read()
        self.digest = hashlib.sha256(raw).hexdigest()[:16]
        self.src = raw.decode("utf-8")
        self.tree = ast.parse(self.src, filename=path)
        self.is_pkg = os.path.basename(path) == "__init__.py"
        self.top = {}  # name -> list of bindings (in order); binding = tuple
        self.star_imports = []
        self.wrap_sources = []  # external namespaces wrapped into globals()
        for n in ast.walk(self.tree):
            for c in ast.iter_child_nodes(n):
                c._parent = n
        self._collect(self.tree.body)

    @property
    def relpath(self):
        return os.path.relpath(self.path, self.repo.root)

    def pkg(self):
        return self.name if self.is_pkg else self.name.rsplit(".", 1)[0]

    def _abs_from(self, node):
        if node.level == 0:
            return node.module
        base = self.pkg().split(".")
        if node.level > 1:
            base = base[: -(node.level - 1)]
        return ".".join(base + ([node.module] if node.module else []))

    def _bind(self, name, b):
        self.top.setdefault(name, []).append(b)

    def _collect(self, body):
        for st in body:
            if isinstance(st, ast.Import):
                for a in st.names:
                    if a.asname:
                        self._bind(a.asname, ("import_mod", a.name, st))
                    else:
                        self._bind(a.name.split(".")[0], ("import_mod", a.name.split(".")[0], st))
            elif isinstance(st, ast.ImportFrom):
                m = self._abs_from(st)
                for a in st.names:
                    if a.name == "*":
                        self.star_imports.append(m)
                    else:
                        self._bind(a.asname or a.name, ("import_from", m, a.name, st))
            elif isinstance(st, (ast.FunctionDef, ast.AsyncFunctionDef)):
                self._bind(st.name, ("def", st, st))
            elif isinstance(st, ast.ClassDef):
                self._bind(st.name, ("class", st, st))
            elif isinstance(st, ast.Assign):
                val_ = st.value
                # X = A if <condition fixed for the installed NumPy> else B
                for _ in range(4):
                    if isinstance(val_, ast.IfExp):
                        v_ = static_module_cond(self, val_.test)
                        if v_ is None:
                            break
                        val_ = val_.body if v_ else val_.orelse
                    else:
                        break
                for t in st.targets:
                    if isinstance(t, ast.Name):
                        self._bind(t.id, ("assign", val_, st))
                    elif isinstance(t, ast.Tuple):
                        seq_ = static_sequence(st.value)
                        if seq_ is not None and len(seq_) == len(t.elts):
                            for te, ve in zip(t.elts, seq_):
                                if isinstance(te, ast.Name):
                                    self._bind(te.id, ("assign", ve, st))
            elif isinstance(st, ast.AnnAssign) and isinstance(st.target, ast.Name) and st.value is not None:
                self._bind(st.target.id, ("assign", st.value, st))
            elif isinstance(st, ast.Expr) and isinstance(st.value, ast.Call):
                c = st.value
                # wrap_namespace(X.__dict__, globals())
                if (
                    isinstance(c.func, ast.Name)
                    and c.func.id == "wrap_namespace"
                    and len(c.args) == 2
                    and isinstance(c.args[0], ast.Attribute)
                    and c.args[0].attr == "__dict__"
                    and isinstance(c.args[1], ast.Call)
                    and isinstance(c.args[1].func, ast.Name)
                    and c.args[1].func.id == "globals"
                ):
                    self.wrap_sources.append(c.args[0].value)
            elif isinstance(st, ast.If):
                v = static_module_cond(self, st.test)
                if v is None or getattr(self.repo, "both_version_branches", False):
                    self._collect(st.body)
                    self._collect(st.orelse)
                elif v:
                    self._collect(st.body)
                else:
                    self._collect(st.orelse)
            elif isinstance(st, ast.Try):
                self._collect(st.body)
                for h in st.handlers:
                    self._collect(h.body)
                self._collect(st.orelse)
                self._collect(st.finalbody)
            elif isinstance(st, (ast.For, ast.While, ast.With)):
                self._collect(st.body)

    def functions(self):
        """All function-like nodes (def and lambda) with a qualified name."""
        out = []

        def walk(node, prefix):
            for c in ast.iter_child_nodes(node):
                if isinstance(c, (ast.FunctionDef, ast.AsyncFunctionDef)):
                    q = f"{prefix}.{c.name}"
                    out.append((q, c))
                    walk(c, q)
                elif isinstance(c, ast.ClassDef):
                    walk(c, f"{prefix}.{c.name}")
                elif isinstance(c, ast.Lambda):
                    q = f"{prefix}.<lambda@{c.lineno}:{c.col_offset}>"
                    out.append((q, c))
                    walk(c, q)
                else:
                    walk(c, prefix)

        walk(self.tree, self.name)
        return out


class Repo:
    def __init__(self, root, env=None):
        self.root = os.path.abspath(root)
        self.env = env
        self.mods = {}
        pkgdir = os.path.join(self.root, "autograd")
        if not os.path.isdir(pkgdir):
            raise AnalysisError(f"no autograd package under {self.root}")
        for dp, dn, fn in os.walk(pkgdir):
            dn[:] = [d for d in dn if d != "__pycache__"]
            for f in sorted(fn):
                if f.endswith(".py"):
                    p = os.path.join(dp, f)
                    rel = os.path.relpath(p, self.root)[:-3].replace(os.sep, ".")
                    if rel.endswith(".__init__"):
                        rel = rel[: -len(".__init__")]
                    try:
                        self.mods[rel] = Mod(self, rel, p)
                    except SyntaxError as e:
                        raise AnalysisError(f"cannot parse {p}: {e}")
        self._notrace_names = None

    def mod(self, name):
        m = self.mods.get(name)
        if m is None:
            raise AnalysisError(f"anchor module {name} vanished")
        return m

    # ---- which numpy functions does numpy_wrapper declare notrace? (read from source)
    def wrapper_notrace_names(self):
        if self._notrace_names is None:
            m = self.mod("autograd.numpy.numpy_wrapper")
            names = set()
            b = m.top.get("notrace_functions")
            if not b:
                raise AnalysisError("numpy_wrapper.notrace_functions vanished")
            val = b[-1][1]
            if not isinstance(val, (ast.List, ast.Tuple)):
                raise AnalysisError("numpy_wrapper.notrace_functions is not a literal list")
            for e in val.elts:
                r = self.resolve_expr(m, e)
                if r is None or r.kind != "ext":
                    raise AnalysisError(f"unresolved entry in notrace_functions: {ast.unparse(e)}")
                names.add(r.qual)
            self._notrace_names = names
        return self._notrace_names

    def classify_wrapped(self, ns, name):
        """How wrap_namespace re-exports ns.name: 'primitive' | 'notrace' | 'intdtype' | 'passthrough' | None."""
        k = self.env.kind(ns, name)
        if k is None:
            return None
        if f"{ns}.{name}" in self.wrapper_notrace_names() or self.env.same_object_as_any(
            ns, name, self.wrapper_notrace_names()
        ):
            return "notrace"
        if k in ("ufunc", "function"):
            return "primitive"
        if k == "inttype":
            return "intdtype"
        if k in ("const",):
            return "passthrough"
        return None  # classes other than int types, modules etc. are not re-exported

    # ---- resolution
    def resolve(self, mod, name, _seen=None, before=None):
        _seen = _seen if _seen is not None else set()
        key = (mod.name, name, before)
        if key in _seen:
            return None
        _seen.add(key)
        bl = mod.top.get(name)
        if bl and before is not None:
            # the binding in force at a module-level statement: `list_ = list` written above `class list` is the builtin
            bl = [b for b in bl if getattr(b[-1], "lineno", 0) < before]
        if bl:
            b = bl[-1]
            if b[0] == "import_mod":
                dotted = b[1]
                return ModRef(dotted, self.mods.get(dotted))
            if b[0] == "import_from":
                m, attr = b[1], b[2]
                sub = f"{m}.{attr}"
                if m in self.mods:
                    r = self.resolve(self.mods[m], attr, _seen)
                    if r is not None:
                        return r
                    if sub in self.mods:
                        return ModRef(sub, self.mods[sub])
                    return None
                if sub in self.mods:
                    return ModRef(sub, self.mods[sub])
                return Ext(sub)
            if b[0] in ("def", "class"):
                return RepoObj(mod, name, b[0], b[1], b[2])
            if b[0] == "assign":
                val = b[1]
                # follow plain aliases  X = Y / X = a.b
                if isinstance(val, (ast.Name, ast.Attribute)):
                    if not (isinstance(val, ast.Name) and val.id == name):
                        if isinstance(val, ast.Name) and len(mod.top.get(val.id) or ()) > 1 and any(getattr(x[-1], "lineno", 0) > getattr(b[-1], "lineno", 0) for x in mod.top[val.id]):
                            r = self.resolve(mod, val.id, _seen, before=getattr(b[-1], "lineno", None))
                        elif isinstance(val, ast.Name) and mod.top.get(val.id) and all(getattr(x[-1], "lineno", 0) > getattr(b[-1], "lineno", 0) for x in mod.top[val.id]):
                            r = self.resolve(mod, val.id, _seen, before=getattr(b[-1], "lineno", None))
                        else:
                            r = self.resolve_expr(mod, val, _seen)
                        if r is not None:
                            return r
                    else:
                        # X = X pattern never occurs; fall through
                        pass
                if isinstance(val, ast.Call) and not val.args and not val.keywords and isinstance(val.func, ast.Name) and len(bl) == 1:
                    # NAME = helper(): a helper that statically selects a module / object (see resolve_expr)
                    r = self.resolve_expr(mod, val, _seen)
                    if r is not None and r.kind in ("module", "ext"):
                        return r
                return RepoObj(mod, name, "assign", val, b[2])
        for sm in mod.star_imports:
            if sm in self.mods:
                r = self.resolve(self.mods[sm], name, _seen)
                if r is not None:
                    return r
        for src in mod.wrap_sources:
            r = self.resolve_expr(mod, src, _seen)
            if r is not None and r.kind == "module" and r.mod is None:
                how = self.classify_wrapped(r.qual, name)
                if how:
                    return Wrapped(r.qual, name, how)
        import builtins

        if hasattr(builtins, name):
            return Ext("builtins." + name)
        return None

    def resolve_expr(self, mod, e, _seen=None):
        if isinstance(e, ast.Name):
            return self.resolve(mod, e.id, _seen)
        if isinstance(e, ast.Attribute):
            base = self.resolve_expr(mod, e.value, _seen)
            if base is None:
                return None
            if base.kind == "module":
                if base.mod is not None:
                    r = self.resolve(base.mod, e.attr)
                    if r is not None:
                        return r
                    sub = f"{base.qual}.{e.attr}"
                    if sub in self.mods:
                        return ModRef(sub, self.mods[sub])
                    return None
                sub = f"{base.qual}.{e.attr}"
                if self.env is not None and self.env.is_module(sub):
                    return ModRef(sub, None)
                return Ext(sub)
            if base.kind == "repo" and base.okind == "class":
                for st in base.node.body:
                    if isinstance(st, (ast.FunctionDef,)) and st.name == e.attr:
                        return ClassAttr(base, e.attr, st)
                    if isinstance(st, ast.Assign):
                        for t in st.targets:
                            if isinstance(t, ast.Name) and t.id == e.attr:
                                return ClassAttr(base, e.attr, st.value)
                return ClassAttr(base, e.attr, None)
            if base.kind == "ext":
                return Ext(f"{base.qual}.{e.attr}")
            return None
        if isinstance(e, ast.Call):
            f = self.resolve_expr(mod, e.func, _seen)
            if f is not None and f.qual == "autograd.util.func" and len(e.args) == 1:
                return self.resolve_expr(mod, e.args[0], _seen)
            if f is not None and f.qual == "builtins.getattr" and len(e.args) == 2 and isinstance(e.args[1], ast.Constant) and isinstance(e.args[1].value, str):
                return self.resolve_expr(mod, ast.Attribute(value=e.args[0], attr=e.args[1].value, ctx=ast.Load()), _seen)
            if f is not None and f.kind == "repo" and getattr(f, "okind", None) == "def" and isinstance(f.node, ast.FunctionDef) and not e.args and not e.keywords and not f.node.decorator_list:
                # NAME = helper() with a helper that only selects a module / object by statically decided conditions
                # (NumPy version tests): the value is the expression it returns
                def returned(stmts, depth=0):
                    if depth > 4:
                        return None
                    for st in stmts:
                        if isinstance(st, ast.Return):
                            return st.value
                        if isinstance(st, ast.If):
                            v = static_module_cond(f.mod, st.test)
                            if v is None:
                                return None
                            r_ = returned(st.body if v else st.orelse, depth + 1)
                            if r_ is not None:
                                return r_
                            continue
                        if isinstance(st, ast.Expr) and isinstance(st.value, ast.Constant):
                            continue
                        return None
                    return None

                rv = returned(f.node.body)
                if rv is not None and not (isinstance(rv, ast.Constant)):
                    return self.resolve_expr(f.mod, rv, _seen)
            return None
        if isinstance(e, ast.Subscript) and isinstance(e.value, ast.Name) and isinstance(e.slice, ast.Constant) and isinstance(e.slice.value, str):
            # NS = vars(anp) / NS = anp.__dict__ ; NS["ravel"]
            bl = mod.top.get(e.value.id)
            if bl and len(bl) == 1 and bl[-1][0] == "assign":
                v_ = bl[-1][1]
                is_ns = (isinstance(v_, ast.Call) and isinstance(v_.func, ast.Name) and v_.func.id == "vars" and len(v_.args) == 1) or (isinstance(v_, ast.Attribute) and v_.attr == "__dict__")
                if is_ns:
                    return self.resolve_expr(mod, ast.Subscript(value=v_, slice=e.slice, ctx=ast.Load()), _seen)
        if isinstance(e, ast.Subscript):
            # vars(anp)["ravel"] / globals-like namespace dict of a module
            if (
                isinstance(e.value, ast.Call)
                and isinstance(e.value.func, ast.Name)
                and e.value.func.id == "vars"
                and len(e.value.args) == 1
                and not e.value.keywords
                and isinstance(e.slice, ast.Constant)
                and isinstance(e.slice.value, str)
            ):
                fr = self.resolve(mod, "vars", _seen)
                if fr is None or fr.qual == "builtins.vars":
                    return self.resolve_expr(mod, ast.Attribute(value=e.value.args[0], attr=e.slice.value, ctx=ast.Load()), _seen)
            # anp.__dict__["ravel"]
            if (
                isinstance(e.value, ast.Attribute)
                and e.value.attr == "__dict__"
                and isinstance(e.slice, ast.Constant)
                and isinstance(e.slice.value, str)
            ):
                return self.resolve_expr(
                    mod, ast.Attribute(value=e.value.value, attr=e.slice.value, ctx=ast.Load()), _seen
                )
        return None

    # ---- classification of callables
    def is_primitive_ref(self, ref):
        """True iff calling `ref` goes through autograd.tracer.primitive's wrapper."""
        if ref is None:
            return False
        if ref.kind == "wrapped":
            return ref.how == "primitive"
        if ref.kind in ("repo", "classattr"):
            node = ref.node
            if isinstance(node, (ast.FunctionDef,)):
                for d in node.decorator_list:
                    r = self.resolve_expr(ref.mod, d)
                    if r is not None and r.qual in PRIMITIVE_CTORS:
                        return True
                return False
            if isinstance(node, ast.Call):
                r = self.resolve_expr(ref.mod, node.func)
                if r is not None and r.qual in PRIMITIVE_CTORS:
                    return True
        return False

    def is_notrace_ref(self, ref):
        if ref is None:
            return False
        if ref.kind == "wrapped":
            return ref.how == "notrace"
        if ref.kind in ("repo", "classattr"):
            node = ref.node
            if isinstance(node, ast.FunctionDef):
                for d in node.decorator_list:
                    r = self.resolve_expr(ref.mod, d)
                    if r is not None and r.qual in NOTRACE_CTORS:
                        return True
            if isinstance(node, ast.Call):
                r = self.resolve_expr(ref.mod, node.func)
                if r is not None and r.qual in NOTRACE_CTORS:
                    return True
        return False

    def find_def(self, modname, qualpath):
        """Locate a (possibly nested) def/class by dotted path inside a module; AnalysisError if missing."""
        m = self.mod(modname)
        node = m.tree
        for part in qualpath.split("."):
            found = None
            for c in ast.walk(node) if node is m.tree and False else ast.iter_child_nodes(node):
                pass
            found = _find_child_def(node, part)
            if found is None:
                raise AnalysisError(f"anchor {modname}:{qualpath} vanished (no '{part}')")
            node = found
        return m, node


def _find_child_def(node, name):
    """Depth-first search for a def/class named `name` that is not nested inside another def/class."""
    stack = list(getattr(node, "body", []))
    if isinstance(node, ast.Module):
        stack = list(node.body)
    while stack:
        st = stack.pop(0)
        if isinstance(st, (ast.FunctionDef, ast.AsyncFunctionDef, ast.ClassDef)):
            if st.name == name:
                return st
            continue
        for f in ("body", "orelse", "finalbody"):
            stack.extend(getattr(st, f, []) or [])
        for h in getattr(st, "handlers", []) or []:
            stack.extend(h.body)
    return None


def norm_text(node):
    """Position-independent text of a node (used to key findings; never used to decide)."""
    try:
        return " ".join(ast.unparse(node).split())
    except Exception:
        return "<?>"
